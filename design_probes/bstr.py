"""Prototype: exact-priority regex matching over bounded symbolic strings with concrete positions."""
import re, time, sys
import re._parser as sp
import re._constants as sc
import z3

WS = [9, 10, 11, 12, 13, 32, 28, 29, 30, 31]  # python str.isspace in ASCII (incl. FS..US)
def is_ws(c): return z3.Or(*[c == w for w in WS])
def is_word(c): return z3.Or(z3.And(c >= 48, c <= 57), z3.And(c >= 65, c <= 90), z3.And(c >= 97, c <= 122), c == 95)
def is_digit(c): return z3.And(c >= 48, c <= 57)

def cls_pred(items, c):
    neg = False; ps = []
    for op, av in items:
        if op is sc.NEGATE: neg = True
        elif op is sc.LITERAL: ps.append(c == av)
        elif op is sc.RANGE: ps.append(z3.And(c >= av[0], c <= av[1]))
        elif op is sc.CATEGORY:
            ps.append({sc.CATEGORY_SPACE: is_ws, sc.CATEGORY_WORD: is_word, sc.CATEGORY_DIGIT: is_digit}[av](c))
        else: raise NotImplementedError(op)
    p = z3.Or(*ps) if len(ps) != 1 else ps[0]
    return z3.Not(p) if neg else p

class Str:
    """string with concrete length; chars are z3 int terms"""
    def __init__(self, chars): self.c = list(chars)
    def __len__(self): return len(self.c)

def match_at(items, s, i, groups, k):
    """DFS in python backtracking order. yields (j, groups, conds) via continuation k(j, groups, conds)->generator"""
    if not items:
        yield from k(i, groups, [])
        return
    (op, av), rest = items[0], items[1:]
    def cont_rest(j, g, conds):
        cs = []
        for c in conds:
            c = z3.simplify(c)
            if z3.is_false(c): return
            if not z3.is_true(c): cs.append(c)
        for (jj, gg, cc) in match_at(rest, s, j, g, k):
            yield (jj, gg, cs + cc)
    if op is sc.LITERAL:
        if i < len(s): 
            for r in cont_rest(i+1, groups, [s.c[i] == av]): yield r
    elif op is sc.NOT_LITERAL:
        if i < len(s):
            for r in cont_rest(i+1, groups, [s.c[i] != av]): yield r
    elif op is sc.ANY:
        if i < len(s):
            for r in cont_rest(i+1, groups, [s.c[i] != 10]): yield r
    elif op is sc.IN:
        if i < len(s):
            for r in cont_rest(i+1, groups, [cls_pred(av, s.c[i])]): yield r
    elif op is sc.SUBPATTERN:
        gid, _, _, sub = av
        def k2(j, g, conds, gid=gid, i=i):
            g2 = dict(g);
            if gid is not None: g2[gid] = (i, j)
            yield (j, g2, conds)
        for (j, g, conds) in match_at(list(sub), s, i, groups, k2):
            for r in cont_rest(j, g, conds): yield r
    elif op is sc.BRANCH:
        for alt in av[1]:
            for (j, g, conds) in match_at(list(alt), s, i, groups, lambda j,g,c: iter([(j,g,c)])):
                for r in cont_rest(j, g, conds): yield r
    elif op in (sc.MAX_REPEAT, sc.MIN_REPEAT):
        lo, hi, sub = av
        sub = list(sub)
        greedy = op is sc.MAX_REPEAT
        def rep(count, pos, g, conds):
            # yields results of matching the repeat starting with `count` done, at pos
            can_stop = count >= lo
            can_more = (hi is sc.MAXREPEAT or count < hi)
            def more():
                if not can_more: return
                for (j, g2, c2) in match_at(sub, s, pos, g, lambda j,g,c: iter([(j,g,c)])):
                    if j == pos: continue  # no empty iterations
                    yield from rep(count+1, j, g2, conds + c2)
            def stop():
                if can_stop:
                    yield from cont_rest(pos, g, conds)
            if greedy:
                yield from more(); yield from stop()
            else:
                yield from stop(); yield from more()
        yield from rep(0, i, groups, [])
    elif op is sc.AT:
        if av is sc.AT_BEGINNING:
            if i == 0: yield from cont_rest(i, groups, [])
        elif av is sc.AT_END:
            if i == len(s): yield from cont_rest(i, groups, [])
            elif i == len(s) - 1: yield from cont_rest(i, groups, [s.c[i] == 10])
        else: raise NotImplementedError(av)
    elif op is sc.ASSERT:
        direction, sub = av
        sub = list(sub)
        if direction == 1:
            for (j, g, conds) in match_at(sub, s, i, groups, lambda j,g,c: iter([(j,g,c)])):
                # lookahead: any match suffices; priority only matters for groups (none here)
                yield from cont_rest(i, groups, conds); 
                # NOTE: multiple alternatives produce duplicates w/ different conds; acceptable (disjunction)
        else:
            # lookbehind fixed width
            lo_w, hi_w = sp.SubPattern(sp.State(), sub).getwidth() if False else (None, None)
            w = sum(1 for _ in sub)  # all single-char items assumed
            if i - w >= 0:
                for (j, g, conds) in match_at(sub, s, i - w, groups, lambda j,g,c: iter([(j,g,c)])):
                    if j == i: yield from cont_rest(i, groups, conds)
    else:
        raise NotImplementedError(op)

def entries(pattern_items, s, i):
    return list(match_at(pattern_items, s, i, {}, lambda j,g,c: iter([(j,g,c)])))

def parse_repl(repl, pattern):
    t = sp.parse_template(repl, re.compile(pattern))
    # py3.12: returns list alternating literal/group index
    return t

class Exec:
    def __init__(self, solver): self.sol = solver; self.checks = 0
    def feasible(self, pc):
        self.checks += 1
        self.sol.push(); self.sol.add(*pc); r = self.sol.check(); self.sol.pop()
        return str(r) == "sat"
    def sub(self, pattern, repl, s, pc):
        """yields (out Str, pc') for each feasible layout"""
        items = list(sp.parse(pattern))
        tmpl = parse_repl(repl, pattern)
        def go(p, out, pc):
            if p >= len(s):
                yield Str(out), pc; return
            ents = entries(items, s, p)
            ents = [(j, g, z3.And(*c) if c else z3.BoolVal(True)) for (j, g, c) in ents if j > p]
            prev_not = []
            for (j, g, cond) in ents:
                pc2 = pc + prev_not + [cond]
                if self.feasible(pc2):
                    piece = []
                    for part in tmpl:
                        if isinstance(part, int):
                            a, b = g[part]; piece.extend(s.c[a:b])
                        elif part is not None:
                            piece.extend(z3.IntVal(ord(ch)) for ch in part)
                    yield from go(j, out + piece, pc2)
                prev_not = prev_not + [z3.Not(cond)]
            pc3 = pc + prev_not
            if self.feasible(pc3):
                yield from go(p + 1, out + [s.c[p]], pc3)
        yield from go(0, [], pc)
    def rstrip(self, s, pc):
        # fork on number of trailing ws chars
        n = len(s); 
        for k in range(n, -1, -1):  # k = kept length
            conds = [is_ws(s.c[t]) for t in range(k, n)]
            if k > 0: conds.append(z3.Not(is_ws(s.c[k-1])))
            pc2 = pc + conds
            if self.feasible(pc2): yield Str(s.c[:k]), pc2

def fix_whitespace_sym(ex, s, pc):
    for s1, pc1 in ex.sub(r"[ ]+\n", "\n", s, pc):
        for s2, pc2 in ex.sub(r"\s+\n\s*\n\s*\n(class|def|@|#|_)", r"\n\n\n\1", s1, pc1):
            for s3, pc3 in ex.sub(r"\s+\n\s*\n((    )+)(\w|_|@|#)", r"\n\n\1\3", s2, pc2):
                for s4, pc4 in ex.rstrip(s3, pc3):
                    yield Str(s4.c + [z3.IntVal(10)]), pc4

if __name__ == "__main__":
    N = int(sys.argv[1])
    t0 = time.time()
    total_leaves = 0; viol = 0
    for L in range(0, N + 1):
        cs = [z3.Int(f"c{i}") for i in range(L)]
        sol = z3.Solver()
        alphabet = [32, 10, 9, ord('x'), ord('#'), ord('@'), ord('_'), ord(':')]
        for c in cs: sol.add(z3.Or(*[c == a for a in alphabet]))
        ex = Exec(sol)
        leaves = 0
        for out1, pc1 in fix_whitespace_sym(ex, Str(cs), []):
            for out2, pc2 in fix_whitespace_sym(ex, out1, pc1):
                leaves += 1
                if len(out2) != len(out1):
                    viol += 1; sol.push(); sol.add(*pc2); sol.check(); m = sol.model(); print("IDEMP VIOL len", "".join(chr(m.eval(c, model_completion=True).as_long()) for c in cs).encode()); sol.pop()
                else:
                    neq = z3.Or(*[a != b for a, b in zip(out1.c, out2.c)]) if len(out1) else z3.BoolVal(False)
                    sol.push(); sol.add(*pc2); sol.add(neq)
                    if str(sol.check()) == "sat":
                        viol += 1; m = sol.model(); print("IDEMP VIOL", "".join(chr(m.eval(c, model_completion=True).as_long()) for c in cs).encode())
                    sol.pop()
        total_leaves += leaves
        print(f"L={L} leaves={leaves} checks={ex.checks} t={time.time()-t0:.1f}s", flush=True)
    print("total leaves", total_leaves, "violations", viol)
