from types import SimpleNamespace as NS
from typing import Optional, List, Tuple
from gapic.schema import wrappers, metadata

INT_TYPES = (3, 4, 5, 6, 7, 13, 15, 16, 17, 18)

def mk_field(name, typ, label, msg=None):
    pb = NS(name=name, type=typ, label=label, type_name=(".x.Y" if msg is not None else ""), number=1)
    return wrappers.Field(field_pb=pb, message=msg)

def mk_msg(name, fields):
    pb = NS(name=name)
    return wrappers.MessageType(message_pb=pb, fields={f.field_pb.name: f for f in fields}, nested_enums={}, nested_messages={})

W_INT32 = mk_msg("Int32Value", [])
W_UINT32 = mk_msg("UInt32Value", [])
W_OTHER = mk_msg("Other", [])

def classify(pt_present: bool, pt_type: int,
             ps_present: bool, ps_type: int,
             mr_present: bool, mr_type: int, mr_wrap: int,
             npt_present: bool, npt_type: int,
             r1_present: bool, r1_label: int, r2_present: bool, r2_label: int) -> Optional[str]:
    """
    pre: 1 <= pt_type <= 18 and pt_type not in (10, 11, 14)
    pre: 1 <= ps_type <= 18 and ps_type not in (10, 11, 14)
    pre: 1 <= mr_type <= 18 and mr_type not in (10, 14)
    pre: 1 <= npt_type <= 18 and npt_type not in (10, 11, 14)
    pre: 0 <= mr_wrap <= 2
    pre: 1 <= r1_label <= 3 and 1 <= r2_label <= 3
    pre: not (ps_present and mr_present)
    post: True
    """
    req_fields = []
    if pt_present: req_fields.append(mk_field("page_token", pt_type, 1))
    if ps_present: req_fields.append(mk_field("page_size", ps_type, 1))
    if mr_present:
        if mr_type == 11:
            req_fields.append(mk_field("max_results", 11, 1, msg=(W_INT32, W_UINT32, W_OTHER)[mr_wrap]))
        else:
            req_fields.append(mk_field("max_results", mr_type, 1))
    resp_fields = []
    if r1_present: resp_fields.append(mk_field("items1", 9, r1_label))
    if npt_present: resp_fields.append(mk_field("next_page_token", npt_type, 1))
    if r2_present: resp_fields.append(mk_field("items2", 5, r2_label))
    m = wrappers.Method(method_pb=NS(name="List"), input=mk_msg("Req", req_fields), output=mk_msg("Resp", resp_fields))
    got = m.paged_result_field
    got_name = got.field_pb.name if got else None
    # oracle
    size_ok = (ps_present and ps_type in INT_TYPES) or (mr_present and (mr_type in INT_TYPES or (mr_type == 11 and mr_wrap in (0, 1))))
    paged = pt_present and pt_type == 9 and npt_present and npt_type == 9 and size_ok and ((r1_present and r1_label == 3) or (r2_present and r2_label == 3))
    exp = None
    if paged:
        exp = "items1" if (r1_present and r1_label == 3) else "items2"
    assert got_name == exp, (got_name, exp)
    return got_name
