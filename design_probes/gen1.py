import sys, os, time
from google.protobuf import descriptor_pb2 as d
from google.protobuf.compiler import plugin_pb2
from google.api import annotations_pb2, client_pb2, http_pb2, resource_pb2, field_behavior_pb2, routing_pb2, field_info_pb2, launch_stage_pb2
from google.protobuf import empty_pb2, descriptor_pb2, duration_pb2, any_pb2, timestamp_pb2, field_mask_pb2, struct_pb2, wrappers_pb2
from google.longrunning import operations_pb2
from google.rpc import status_pb2
from gapic.schema import api
from gapic.generator import generator
from gapic.utils import Options

def fdp(mod):
    return d.FileDescriptorProto.FromString(mod.DESCRIPTOR.serialized_pb)

deps = [descriptor_pb2, any_pb2, duration_pb2, empty_pb2, timestamp_pb2, field_mask_pb2, struct_pb2, wrappers_pb2, status_pb2, launch_stage_pb2, http_pb2, annotations_pb2, client_pb2, resource_pb2, field_behavior_pb2, field_info_pb2, routing_pb2, operations_pb2]
T = d.FieldDescriptorProto
f = d.FileDescriptorProto(name="google/example/lib/v1/library.proto", package="google.example.lib.v1", syntax="proto3")
f.dependency.extend([m.DESCRIPTOR.name for m in deps])
book = f.message_type.add(name="Book")
book.field.add(name="name", number=1, type=T.TYPE_STRING, label=1, json_name="name")
book.field.add(name="author", number=2, type=T.TYPE_STRING, label=1, json_name="author")
book.options.Extensions[resource_pb2.resource].type = "lib.googleapis.com/Book"
book.options.Extensions[resource_pb2.resource].pattern.append("shelves/{shelf}/books/{book}")
req = f.message_type.add(name="ListBooksRequest")
req.field.add(name="parent", number=1, type=T.TYPE_STRING, label=1, json_name="parent")
req.field.add(name="page_size", number=2, type=T.TYPE_INT32, label=1, json_name="pageSize")
req.field.add(name="page_token", number=3, type=T.TYPE_STRING, label=1, json_name="pageToken")
resp = f.message_type.add(name="ListBooksResponse")
resp.field.add(name="books", number=1, type=T.TYPE_MESSAGE, label=3, type_name=".google.example.lib.v1.Book", json_name="books")
resp.field.add(name="next_page_token", number=2, type=T.TYPE_STRING, label=1, json_name="nextPageToken")
greq = f.message_type.add(name="GetBookRequest")
greq.field.add(name="name", number=1, type=T.TYPE_STRING, label=1, json_name="name")
svc = f.service.add(name="Library")
svc.options.Extensions[client_pb2.default_host] = "lib.googleapis.com"
m = svc.method.add(name="ListBooks", input_type=".google.example.lib.v1.ListBooksRequest", output_type=".google.example.lib.v1.ListBooksResponse")
m.options.Extensions[annotations_pb2.http].get = "/v1/{parent=shelves/*}/books"
m.options.Extensions[client_pb2.method_signature].append("parent")
m = svc.method.add(name="GetBook", input_type=".google.example.lib.v1.GetBookRequest", output_type=".google.example.lib.v1.Book")
m.options.Extensions[annotations_pb2.http].get = "/v1/{name=shelves/*/books/*}"
m.options.Extensions[client_pb2.method_signature].append("name")
rr = m.options.Extensions[routing_pb2.routing]
rr.routing_parameters.add(field="name", path_template="{shelf=shelves/*}/**")

req_ = plugin_pb2.CodeGeneratorRequest()
req_.proto_file.extend([fdp(m) for m in deps] + [f])
req_.file_to_generate.append(f.name)
req_.parameter = sys.argv[2] if len(sys.argv) > 2 else "transport=grpc+rest"
t=time.time()
opts = Options.build(req_.parameter)
a = api.API.build(req_.proto_file, opts=opts, package="google.example.lib.v1")
res = generator.Generator(opts).get_response(a, opts)
print("gen time", time.time()-t, "files", len(res.file))
out = sys.argv[1]
for fl in res.file:
    p = os.path.join(out, fl.name); os.makedirs(os.path.dirname(p), exist_ok=True)
    open(p, "w").write(fl.content)
