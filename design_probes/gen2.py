import sys, os, time, hashlib
from google.protobuf import descriptor_pb2 as d
from google.protobuf.compiler import plugin_pb2
from google.api import annotations_pb2, client_pb2, http_pb2, resource_pb2, field_behavior_pb2, routing_pb2, field_info_pb2, launch_stage_pb2
from google.protobuf import empty_pb2, descriptor_pb2, duration_pb2, any_pb2, timestamp_pb2, field_mask_pb2, struct_pb2, wrappers_pb2
from google.longrunning import operations_pb2
from google.rpc import status_pb2
from gapic.schema import api
from gapic.generator import generator
from gapic.utils import Options
def fdp(mod): return d.FileDescriptorProto.FromString(mod.DESCRIPTOR.serialized_pb)
deps = [descriptor_pb2, any_pb2, duration_pb2, empty_pb2, timestamp_pb2, field_mask_pb2, struct_pb2, wrappers_pb2, status_pb2, launch_stage_pb2, http_pb2, annotations_pb2, client_pb2, resource_pb2, field_behavior_pb2, field_info_pb2, routing_pb2, operations_pb2]
T = d.FieldDescriptorProto
f = d.FileDescriptorProto(name="google/example/lib/v1/library.proto", package="google.example.lib.v1", syntax="proto3")
f.dependency.extend([m.DESCRIPTOR.name for m in deps])
for i,(dom,pat) in enumerate([("a.example.com","as/{a}/things/{thing}"),("b.example.com","bs/{b}/things/{thing}"),("c.example.com","cs/{c}/things/{thing}")]):
    m = f.message_type.add(name=f"Thing{i}")
    m.field.add(name="name", number=1, type=T.TYPE_STRING, label=1, json_name="name")
    m.options.Extensions[resource_pb2.resource].type = f"{dom}/Thing"
    m.options.Extensions[resource_pb2.resource].pattern.append(pat)
req = f.message_type.add(name="GetReq")
for i in range(3):
    req.field.add(name=f"t{i}", number=i+1, type=T.TYPE_MESSAGE, label=1, type_name=f".google.example.lib.v1.Thing{i}", json_name=f"t{i}")
svc = f.service.add(name="Library")
svc.options.Extensions[client_pb2.default_host] = "lib.googleapis.com"
m = svc.method.add(name="Get", input_type=".google.example.lib.v1.GetReq", output_type=".google.example.lib.v1.Thing0")
req_ = plugin_pb2.CodeGeneratorRequest()
req_.proto_file.extend([fdp(m) for m in deps] + [f])
req_.file_to_generate.append(f.name)
req_.parameter = "transport=grpc"
opts = Options.build(req_.parameter)
a = api.API.build(req_.proto_file, opts=opts, package="google.example.lib.v1")
res = generator.Generator(opts).get_response(a, opts)
print(hashlib.sha256(res.SerializeToString(deterministic=True)).hexdigest())
for fl in res.file:
    if fl.name.endswith("services/library/client.py"):
        import re
        print(re.findall(r'return "(.*things.*)"\.format', fl.content))
