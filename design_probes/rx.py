import re, time
import re._parser as sp
import re._constants as sc
import z3

DOT = z3.Diff(z3.AllChar(z3.ReSort(z3.StringSort())), z3.Re("\n"))
ANYC = z3.AllChar(z3.ReSort(z3.StringSort()))

def cls_to_re(items):
    neg = False; parts = []
    for op, av in items:
        if op is sc.NEGATE: neg = True
        elif op is sc.LITERAL: parts.append(z3.Re(chr(av)))
        elif op is sc.RANGE: parts.append(z3.Range(chr(av[0]), chr(av[1])))
        elif op is sc.CATEGORY:
            parts.append(cat_to_re(av))
        else: raise NotImplementedError(op)
    r = parts[0] if len(parts)==1 else z3.Union(*parts)
    return z3.Diff(ANYC, r) if neg else r

def cat_to_re(av):
    if av is sc.CATEGORY_DIGIT: return z3.Range("0","9")
    if av is sc.CATEGORY_SPACE: return z3.Union(*[z3.Re(c) for c in " \t\n\r\x0b\x0c"])
    if av is sc.CATEGORY_WORD: return z3.Union(z3.Range("a","z"), z3.Range("A","Z"), z3.Range("0","9"), z3.Re("_"))
    raise NotImplementedError(av)

EMPTY = z3.Re("")
def lang(node_list):
    """regex language, ignoring groups; anchors not allowed inside"""
    parts = []
    for op, av in node_list:
        if op is sc.LITERAL: parts.append(z3.Re(chr(av)))
        elif op is sc.ANY: parts.append(DOT)
        elif op is sc.IN: parts.append(cls_to_re(av))
        elif op is sc.NOT_LITERAL: parts.append(z3.Diff(ANYC, z3.Re(chr(av))))
        elif op in (sc.MAX_REPEAT, sc.MIN_REPEAT):
            lo, hi, sub = av
            r = lang(sub)
            if hi is sc.MAXREPEAT:
                parts.append(z3.Star(r) if lo==0 else (z3.Plus(r) if lo==1 else z3.Concat(*([r]*lo+[z3.Star(r)]))))
            else:
                parts.append(z3.Loop(r, lo, hi))
        elif op is sc.SUBPATTERN:
            parts.append(lang(av[3]))
        elif op is sc.BRANCH:
            parts.append(z3.Union(*[lang(b) for b in av[1]]))
        else: raise NotImplementedError(op)
    if not parts: return EMPTY
    return parts[0] if len(parts)==1 else z3.Concat(*parts)

class Parse:
    """existential parse: s matched by pattern (re.match semantics w/ ^...$), exposing named groups as z3 string vars"""
    def __init__(self, pattern, s, tag):
        self.groups = {}
        self.cons = []
        tree = sp.parse(pattern)
        self.gi = {v:k for k,v in tree.state.groupdict.items()}
        items = list(tree)
        assert items[0] == (sc.AT, sc.AT_BEGINNING) and items[-1] == (sc.AT, sc.AT_END), pattern
        body = items[1:-1]
        core = z3.String(f"core_{tag}")
        # $ : end or before trailing newline
        self.cons.append(z3.Or(s == core, s == z3.Concat(core, z3.StringVal("\n"))))
        self.seq(body, core, tag)
    def seq(self, items, s, tag):
        # split at groups
        pieces = []; cur = []
        for it in items:
            if it[0] is sc.SUBPATTERN and it[1][0] is not None and self.has_named(it):
                if cur: pieces.append(("re", cur)); cur = []
                pieces.append(("grp", it))
            else:
                cur.append(it)
        if cur: pieces.append(("re", cur))
        vars_ = []
        for i,(k,p) in enumerate(pieces):
            v = z3.String(f"p_{tag}_{len(self.cons)}_{i}")
            vars_.append(v)
            if k == "re":
                self.cons.append(z3.InRe(v, lang(p)))
            else:
                gid = p[1][0]; name = self.gi.get(gid, gid)
                self.groups[name] = v
                self.seq(list(p[1][3]), v, f"{tag}g{gid}")
        if not vars_: self.cons.append(s == z3.StringVal(""))
        elif len(vars_) == 1: self.cons.append(s == vars_[0])
        else: self.cons.append(s == z3.Concat(*vars_))
    def has_named(self, it): return True

if __name__ == "__main__":
    pat = r"^shelves/(?P<shelf>.+?)/books/(?P<book>.+?)$"
    shelf, book = z3.Strings("shelf book")
    s = z3.Concat(z3.StringVal("shelves/"), shelf, z3.StringVal("/books/"), book)
    P = Parse(pat, s, "a")
    valid = lambda v: z3.And(z3.Length(v) >= 1, z3.Not(z3.Contains(v, z3.StringVal("/"))), z3.Not(z3.Contains(v, z3.StringVal("\n"))))
    sol = z3.Solver(); sol.set("timeout", 60000)
    sol.add(valid(shelf), valid(book), *P.cons)
    sol.add(z3.Or(P.groups["shelf"] != shelf, P.groups["book"] != book))
    t=time.time(); r = sol.check(); print("uniq", r, time.time()-t)
    if str(r)=="sat": print(sol.model())
    # existence
    sol = z3.Solver(); sol.set("timeout", 60000)
    full = lang(list(sp.parse(pat))[1:-1])
    sol.add(valid(shelf), valid(book), z3.Not(z3.InRe(s, full)))
    t=time.time(); r = sol.check(); print("exists", r, time.time()-t)
    # without the '/' restriction -> expect sat (ambiguous)
    sol = z3.Solver(); sol.set("timeout", 60000)
    v2 = lambda v: z3.And(z3.Length(v) >= 1, z3.Not(z3.Contains(v, z3.StringVal("\n"))))
    sol.add(v2(shelf), v2(book), *P.cons)
    sol.add(z3.Or(P.groups["shelf"] != shelf, P.groups["book"] != book))
    t=time.time(); r = sol.check(); print("noslash-restr", r, time.time()-t)
    if str(r)=="sat": m = sol.model(); print(m[shelf], m[book], m.eval(P.groups["shelf"]), m.eval(P.groups["book"]))
