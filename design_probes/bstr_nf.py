import sys, time, z3
sys.path.insert(0, "/tmp/probe")
from bstr import *
def NF(ex, s, pc):
    s = Str(s.c + [z3.IntVal(10)])
    for s1, pc1 in ex.sub(r"[ \t]+\n", "\n", s, pc):
        for s2, pc2 in ex.sub(r"\n+", "\n", s1, pc1):
            # lstrip newline (at most one after collapse)
            if len(s2) == 0: yield s2, pc2; continue
            pa = pc2 + [s2.c[0] == 10]; pb = pc2 + [s2.c[0] != 10]
            if ex.feasible(pa): yield Str(s2.c[1:]), pa
            if ex.feasible(pb): yield s2, pb
N = int(sys.argv[1]); t0 = time.time(); leaves = viol = 0
for L in range(0, N + 1):
    cs = [z3.Int(f"c{i}") for i in range(L)]
    sol = z3.Solver()
    alphabet = [32, 10, 9, ord('x'), ord('#'), ord('@'), ord('_'), ord(':')]
    for c in cs: sol.add(z3.Or(*[c == a for a in alphabet]))
    ex = Exec(sol)
    for out, pc in fix_whitespace_sym(ex, Str(cs), []):
        for n_in, pc2 in NF(ex, Str(cs), pc):
            for n_out, pc3 in NF(ex, out, pc2):
                leaves += 1
                if len(n_in) != len(n_out): bad = z3.BoolVal(True)
                else: bad = z3.Or(*[a != b for a, b in zip(n_in.c, n_out.c)]) if len(n_in) else z3.BoolVal(False)
                sol.push(); sol.add(*pc3); sol.add(bad)
                if str(sol.check()) == "sat":
                    viol += 1; m = sol.model(); print("NF VIOL", "".join(chr(m.eval(c, model_completion=True).as_long()) for c in cs).encode())
                sol.pop()
    print(f"L={L} leaves={leaves} t={time.time()-t0:.1f}", flush=True)
print("leaves", leaves, "viol", viol)
