import ast, __future__, re, types
from typing import Optional
from google.api_core import gapic_v1

SRC = open("/tmp/probe/out1/google/example/lib_v1/services/library/client.py").read()
tree = ast.parse(SRC)
cls = [n for n in tree.body if isinstance(n, ast.ClassDef) and n.name == "LibraryClient"][0]
fn = [n for n in cls.body if isinstance(n, ast.FunctionDef) and n.name == "get_book"][0]
mod = ast.Module(body=[fn], type_ignores=[])
code = compile(mod, "emitted:get_book", "exec", flags=__future__.annotations.compiler_flag)

class FakeMsg:
    _fields = ()
    def __init__(self, other=None, **kw):
        object.__setattr__(self, "_set", {})
        if isinstance(other, dict): self._set.update(other)
        elif other is not None: self._set.update(other._set)
        self._set.update(kw)
    def __setattr__(self, k, v): self._set[k] = v
    def __getattr__(self, k):
        if k.startswith("__"): raise AttributeError(k)
        return self._set.get(k, "")
    def __contains__(self, k): return k in self._set
class GetBookRequest(FakeMsg): pass
library = types.SimpleNamespace(GetBookRequest=GetBookRequest, Book=FakeMsg)

class Rec:
    def __init__(self): self.calls = []
    def __call__(self, request, retry=None, timeout=None, metadata=()):
        self.calls.append((dict(request._set), metadata)); return "RESP"
class FakeTransport:
    def __init__(self): self.rec = Rec(); self.get_book = "k"; self._wrapped_methods = {"k": self.rec}
class FakeSelf:
    def __init__(self): self._transport = FakeTransport()
    def _validate_universe_domain(self): return True

ns = {"library": library, "gapic_v1": gapic_v1, "re": re}
exec(code, ns)
get_book = ns["get_book"]

def flat(req_present: bool, req_name: int, kw_present: bool, kw_name: int) -> bool:
    """
    pre: 0 <= req_name <= 3 and 0 <= kw_name <= 3
    post: _
    """
    NAMES = ["", "shelves/a/books/b", "x", "shelves/q"]
    s = FakeSelf()
    request = GetBookRequest(name=NAMES[req_name]) if req_present else None
    name = NAMES[kw_name] if kw_present else None
    try:
        r = get_book(s, request, name=name)
    except ValueError:
        return req_present and kw_present and s._transport.rec.calls == []
    if req_present and kw_present: return False
    exp = {"name": NAMES[req_name]} if req_present else ({"name": NAMES[kw_name]} if kw_present else {})
    sent, md = s._transport.rec.calls[0]
    return r == "RESP" and len(s._transport.rec.calls) == 1 and sent == exp
