import sys, time, itertools, z3
sys.path.insert(0, "/tmp/probe")
from bstr import *
pat = r"^projects/(?P<project>.+?)/metricDescriptors/(?P<md>.+?)$"
items = list(sp.parse(pat))
gi = {v: k for k, v in sp.parse(pat).state.groupdict.items()}
t0 = time.time(); leaves = 0; bad = 0
for lp, lm in itertools.product(range(1, 4), range(1, 7)):
    P = [z3.Int(f"p{i}") for i in range(lp)]; M = [z3.Int(f"m{i}") for i in range(lm)]
    sol = z3.Solver()
    for c in P: sol.add(c >= 32, c < 127, c != 47)
    for c in M: sol.add(c >= 32, c < 127)          # '/' allowed in ** variable
    sol.add(M[0] != 47, M[-1] != 47)
    chars = [z3.IntVal(ord(ch)) for ch in "projects/"] + P + [z3.IntVal(ord(ch)) for ch in "/metricDescriptors/"] + M
    s = Str(chars)
    ex = Exec(sol)
    ents = entries(items, s, 0)
    prev = []
    a0 = len("projects/"); b0 = a0 + lp; a1 = b0 + len("/metricDescriptors/"); b1 = a1 + lm
    matched_any = []
    for (j, g, conds) in ents:
        cond = z3.And(*conds) if conds else z3.BoolVal(True)
        pc = prev + [cond]
        if ex.feasible(pc):
            leaves += 1
            spans = {gi[k]: v for k, v in g.items()}
            if spans != {"project": (a0, b0), "md": (a1, b1)}:
                bad += 1; sol.push(); sol.add(*pc); sol.check(); m = sol.model()
                print("BAD", lp, lm, spans, "".join(chr(m.eval(c, model_completion=True).as_long()) for c in chars)); sol.pop()
        matched_any.append(cond); prev = prev + [z3.Not(cond)]
    # some entry must match (no None)
    if ex.feasible([z3.Not(z3.Or(*matched_any))]): bad += 1; print("NOMATCH possible", lp, lm)
print("leaves", leaves, "bad", bad, "t", round(time.time() - t0, 1))
