from gapic.utils.lines import wrap, sort_lines
from gapic.generator.formatter import fix_whitespace
from gapic.utils.case import to_snake_case

def words_preserved(text: str, width: int) -> bool:
    """
    pre: 1 <= len(text) <= 6
    pre: 4 <= width <= 8
    pre: all(c in 'ab \n:-' for c in text)
    post: _
    """
    out = wrap(text, width)
    return out.split() == text.split()

def fw_idem(code: str) -> bool:
    """
    pre: len(code) <= 6
    pre: all(c in 'a \n#' for c in code)
    post: _
    """
    once = fix_whitespace(code)
    return fix_whitespace(once) == once
