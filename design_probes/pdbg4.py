def t1(text: str) -> bool:
    """
    pre: len(text) == 1
    pre: text in ('a', 'b')
    post: _
    """
    return (text + "\n").strip() == text

def t2(text: str) -> bool:
    """
    pre: len(text) == 1
    pre: text in ('a', 'b')
    post: _
    """
    return (text + "\n").rstrip() == text

def t3(text: str) -> bool:
    """
    pre: len(text) == 1
    pre: text in ('a', 'b')
    post: _
    """
    return (text + "\n").strip().split() == [text]

def t4(text: str) -> bool:
    """
    pre: len(text) == 1
    pre: text in ('a', 'b')
    post: _
    """
    return (text + " ").split() == [text]

def t5(text: str) -> bool:
    """
    pre: len(text) == 2
    pre: text in ('a ', 'b ')
    post: _
    """
    return text.strip().split() == [text[0]]

def t6(text: str) -> bool:
    """
    pre: len(text) == 2
    pre: text in ('a ', 'b ')
    post: _
    """
    x = text.strip()
    return len(x) == 1 and x == text[0] and x.split() == [x]
