import sys, random, re, z3
sys.path.insert(0, "/tmp/probe")
from bstr import *
from gapic.generator.formatter import fix_whitespace
random.seed(1)
alpha = " \n\t x#@_:cdeflas"
bad = 0
for it in range(400):
    n = random.randint(0, 11)
    src = "".join(random.choice(alpha if random.random()<0.7 else " \n") for _ in range(n))
    sol = z3.Solver(); ex = Exec(sol)
    outs = list(fix_whitespace_sym(ex, Str([z3.IntVal(ord(c)) for c in src]), []))
    assert len(outs) == 1, (src, len(outs))
    got = "".join(chr(z3.simplify(c).as_long()) for c in outs[0][0].c)
    exp = fix_whitespace(src)
    if got != exp:
        bad += 1; print("MISMATCH", repr(src), repr(got), repr(exp))
print("bad", bad)
