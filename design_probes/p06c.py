import sys, time, z3, itertools
sys.path.insert(0, "/tmp/probe")
from rx import *
import rx
from gapic.schema.wrappers import RoutingParameter
NL = z3.Re("\n"); NOSL = z3.Diff(ANYC, z3.Union(z3.Re("/"), NL)); ANYNN = z3.Diff(ANYC, NL)
SIGP = z3.Plus(ANYNN)
def seg_re(path):
    parts = path.split("/"); out = None
    for p in parts:
        if p == "**":
            r = z3.Star(ANYNN)
            out = r if out is None else z3.Concat(out, z3.Option(z3.Concat(z3.Re("/"), r)))
        else:
            r = z3.Plus(NOSL) if p == "*" else z3.Re(p)
            out = r if out is None else z3.Concat(out, z3.Re("/"), r)
    return out if out is not None else z3.Re("")
def ref_plus(tmpl):
    i, j = tmpl.index("{"), tmpl.index("}")
    inner = tmpl[i+1:j]; sub = inner.split("=")[1] if "=" in inner else "*"
    pre, suf = tmpl[:i], tmpl[j+1:]
    # pre ends with '/' or empty; suf starts with '/' or empty
    cap = z3.Intersect(seg_re(sub), SIGP)
    parts = []
    if pre: parts.append(z3.Concat(seg_re(pre[:-1]), z3.Re("/")))
    parts.append(cap)
    if suf:
        if suf == "/**": parts.append(z3.Option(z3.Concat(z3.Re("/"), z3.Star(ANYNN))))
        else: parts.append(z3.Concat(z3.Re("/"), seg_re(suf[1:])))
    return parts[0] if len(parts) == 1 else z3.Concat(*parts)
def real_plus(pat):
    # language with named group body intersected with non-empty
    items = list(sp.parse(pat))[1:-1]
    def L(items):
        parts = []
        for it in items:
            if it[0] is sc.SUBPATTERN and it[1][0] is not None:
                parts.append(z3.Intersect(rx.lang(list(it[1][3])), SIGP))
            else:
                parts.append(rx.lang([it]))
        return parts[0] if len(parts) == 1 else z3.Concat(*parts)
    return L(items)
DOM = z3.Star(ANYNN)
n = bad = 0; t0 = time.time()
for pre, cap, suf in itertools.product(["", "a/*/"], ["{k}", "{k=*}", "{k=**}", "{k=a/*}", "{k=a/*/b/*}", "{k=a/*/**}"], ["", "/**", "/b", "/b/*"]):
    if cap in ("{k=**}", "{k=a/*/**}") and suf: continue   # '**' only last (AIP)
    tmpl = pre + cap + suf
    pat = RoutingParameter("f", tmpl).to_regex().pattern
    s = z3.String("s")
    for nm, a, b in (("real\\ref", real_plus(pat), ref_plus(tmpl)), ("ref\\real", ref_plus(tmpl), real_plus(pat))):
        sol = z3.Solver(); sol.set("timeout", 30000)
        sol.add(z3.InRe(s, DOM), z3.InRe(s, a), z3.Not(z3.InRe(s, b)))
        r = str(sol.check()); n += 1
        if r != "unsat": bad += 1; print(tmpl, pat, nm, r, sol.model()[s] if r == "sat" else "")
print("queries", n, "non-unsat", bad, "t", round(time.time()-t0, 1))
