import time, z3, sys
sys.path.insert(0, "/tmp/probe")
from rx import *
pat = r"^shelves/(?P<shelf>.+?)/books/(?P<book>.+?)$"
shelf, book = z3.Strings("shelf book")
s = z3.Concat(z3.StringVal("shelves/"), shelf, z3.StringVal("/books/"), book)
P = Parse(pat, s, "a")
seg = z3.Plus(z3.Diff(ANYC, z3.Union(z3.Re("/"), z3.Re("\n"))))
for bound in (None, 8, 4):
    valid = lambda v: z3.And(z3.InRe(v, seg), *( [z3.Length(v) <= bound] if bound else []))
    sol = z3.Solver(); sol.set("timeout", 60000)
    sol.add(valid(shelf), valid(book), *P.cons)
    sol.add(z3.Or(P.groups["shelf"] != shelf, P.groups["book"] != book))
    t=time.time(); r = sol.check(); print("uniq bound", bound, r, time.time()-t)
    sol = z3.Solver(); sol.set("timeout", 60000)
    full = lang(list(sp.parse(pat))[1:-1])
    sol.add(valid(shelf), valid(book), z3.Not(z3.InRe(s, full)))
    t=time.time(); r = sol.check(); print("exists bound", bound, r, time.time()-t)
    open(f"/tmp/probe/q_{bound}.smt2","w").write(sol.to_smt2())
