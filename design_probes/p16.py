from types import SimpleNamespace as NS
from typing import List
import collections
from gapic.schema import wrappers, metadata, naming, api as api_mod
from google.api import resource_pb2, field_behavior_pb2

NAMING = naming.NewNaming(name="Lib", namespace=("Google",), version="v1", proto_package="google.lib.v1")
class Ext(dict):
    def __missing__(self, k):
        if k is resource_pb2.resource_reference: return NS(type="", child_type="")
        if k is resource_pb2.resource: return NS(type="", pattern=[])
        return []
def opts(**kw):
    e = Ext(); e.update(kw.get("ext", {})); return NS(Extensions=e)
BASE = metadata.Address(api_naming=NAMING, module="lib", package=("google", "lib", "v1"))

def mk_msg(name):
    return wrappers.MessageType(message_pb=NS(name=name, options=opts()), fields={}, nested_enums={}, nested_messages={},
                                meta=metadata.Metadata(address=BASE.child(name, (4, 0))))
def add_field(msg, fname, target):
    f = wrappers.Field(field_pb=NS(name=fname, type=11, label=1, type_name="." + target.ident.proto, options=opts(), proto3_optional=False),
                       message=target, meta=metadata.Metadata(address=msg.ident.child(fname, (2, 0))))
    msg.fields[fname] = f

def closure(e01: bool, e02: bool, e10: bool, e12: bool, e20: bool, e21: bool, e00: bool, m_in: int, m_out: int, keep_a: bool, keep_b: bool) -> bool:
    """
    pre: 0 <= m_in <= 2 and 0 <= m_out <= 2
    post: _
    """
    msgs = [mk_msg(f"M{i}") for i in range(3)]
    edges = {(0,1): e01, (0,2): e02, (1,0): e10, (1,2): e12, (2,0): e20, (2,1): e21, (0,0): e00}
    for (a, b), on in edges.items():
        if on: add_field(msgs[a], f"f{b}", msgs[b])
    svc_addr = BASE.child("Svc", (6, 0))
    def mk_method(name, i, o):
        return wrappers.Method(method_pb=NS(name=name, options=opts()), input=msgs[i], output=msgs[o],
                               meta=metadata.Metadata(address=svc_addr.child(name, (2, 0))))
    ma = mk_method("A", m_in, m_out); mb = mk_method("B", 2, 2)
    svc = wrappers.Service(service_pb=NS(name="Svc"), methods={"A": ma, "B": mb}, visible_resources={}, meta=metadata.Metadata(address=svc_addr))
    proto = api_mod.Proto(file_pb2=NS(name="lib.proto"), services={svc_addr.proto: svc},
                          all_messages={m.ident.proto: m for m in msgs}, all_enums={}, file_to_generate=True,
                          meta=metadata.Metadata(address=BASE))
    allow = set()
    listed = set()
    if keep_a: listed.add("google.lib.v1.Svc.A")
    if keep_b: listed.add("google.lib.v1.Svc.B")
    proto.add_to_address_allowlist(address_allowlist=allow, method_allowlist=listed, resource_messages={})
    pruned = proto.prune_messages_for_selective_generation(address_allowlist=allow)
    kept = set() if pruned is None else {k.split(".")[-1] for k in pruned.all_messages}
    # oracle: reachability
    roots = set()
    if keep_a: roots |= {m_in, m_out}
    if keep_b: roots |= {2}
    reach = set(roots); changed = True
    while changed:
        changed = False
        for (a, b), on in edges.items():
            if on and a in reach and b not in reach:
                reach.add(b); changed = True
    exp = {f"M{i}" for i in reach}
    kept_methods = set() if (pruned is None or not pruned.services) else set(next(iter(pruned.services.values())).methods)
    exp_methods = ({"A"} if keep_a else set()) | ({"B"} if keep_b else set())
    return kept == exp and kept_methods == exp_methods
