import re
from typing import Dict

def book_path(shelf: str, book: str) -> str:
    return "shelves/{shelf}/books/{book}".format(shelf=shelf, book=book)

def parse_book_path(path: str) -> Dict[str,str]:
    m = re.match(r"^shelves/(?P<shelf>.+?)/books/(?P<book>.+?)$", path)
    return m.groupdict() if m else {}

def rt(shelf: str, book: str) -> Dict[str, str]:
    """
    pre: len(shelf) >= 1 and len(book) >= 1
    pre: '/' not in shelf and '/' not in book
    pre: chr(10) not in shelf and chr(10) not in book
    post: _ == {'shelf': shelf, 'book': book}
    """
    return parse_book_path(book_path(shelf, book))

def rt_bad(shelf: str, book: str) -> Dict[str, str]:
    """
    pre: len(shelf) >= 1 and len(book) >= 1
    pre: chr(10) not in shelf and chr(10) not in book
    post: _ == {'shelf': shelf, 'book': book}
    """
    return parse_book_path(book_path(shelf, book))
