import sys, time, z3, itertools
sys.path.insert(0, "/tmp/probe")
from rx import *
from gapic.schema.wrappers import RoutingParameter
NL = z3.Re("\n")
NOSL = z3.Diff(ANYC, z3.Union(z3.Re("/"), NL))
ANYNN = z3.Diff(ANYC, NL)
def seg_re(path):
    parts = path.split("/"); out = None
    for p in parts:
        if p == "**":
            r = z3.Star(ANYNN)
            out = r if out is None else z3.Concat(out, z3.Option(z3.Concat(z3.Re("/"), r)))
        else:
            r = z3.Plus(NOSL) if p == "*" else z3.Re(p)
            out = r if out is None else z3.Concat(out, z3.Re("/"), r)
    return out
def strip_braces(t):
    i, j = t.index("{"), t.index("}")
    inner = t[i+1:j]; sub = inner.split("=")[1] if "=" in inner else "*"
    return t[:i] + sub + t[j+1:]
DOM = z3.Star(ANYNN)
n = 0; bad = 0; t0 = time.time()
for pre, cap, suf in itertools.product(["", "a/*/"], ["{k}", "{k=*}", "{k=**}", "{k=a/*}", "{k=a/*/b/*}", "{k=a/*/**}"], ["", "/**", "/b", "/b/*"]):
    tmpl = pre + cap + suf
    try:
        pat = RoutingParameter("f", tmpl).to_regex().pattern
    except Exception as e:
        print("EXC", tmpl, type(e).__name__, e); continue
    real = lang(list(sp.parse(pat))[1:-1]); ref = seg_re(strip_braces(tmpl))
    s = z3.String("s")
    for nm, a, b in (("real\\ref", real, ref), ("ref\\real", ref, real)):
        sol = z3.Solver(); sol.set("timeout", 30000)
        sol.add(z3.InRe(s, DOM), z3.InRe(s, a), z3.Not(z3.InRe(s, b)))
        r = str(sol.check()); n += 1
        if r != "unsat":
            bad += 1; print(tmpl, pat, nm, r, sol.model()[s] if r == "sat" else "")
print("queries", n, "non-unsat", bad, "t", round(time.time()-t0, 1))
