import sys, types, importlib.util
from typing import List, Tuple

class FakeMsg:
    def __init__(self, other=None, **kw):
        if other is not None:
            self.__dict__.update(other.__dict__)
        self.__dict__.update(kw)

fake = types.ModuleType("google.example.lib_v1.types.library")
class ListBooksRequest(FakeMsg): pass
class ListBooksResponse(FakeMsg): pass
class Book(FakeMsg): pass
fake.ListBooksRequest = ListBooksRequest; fake.ListBooksResponse = ListBooksResponse; fake.Book = Book
pkg = types.ModuleType("google.example.lib_v1.types"); pkg.library = fake; pkg.__path__ = []
sys.modules["google.example.lib_v1.types"] = pkg
sys.modules["google.example.lib_v1.types.library"] = fake
p0 = types.ModuleType("google.example"); p0.__path__ = []
p1 = types.ModuleType("google.example.lib_v1"); p1.__path__ = []
sys.modules.setdefault("google.example", p0); sys.modules.setdefault("google.example.lib_v1", p1)
spec = importlib.util.spec_from_file_location("emitted_pagers", "/tmp/probe/out1/google/example/lib_v1/services/library/pagers.py")
pagers = importlib.util.module_from_spec(spec); spec.loader.exec_module(pagers)

def run(pages: List[Tuple[List[int], str]], parent: str, page_size: int) -> bool:
    """
    pre: 1 <= len(pages) <= 3
    pre: all(len(p[0]) <= 2 for p in pages)
    pre: all(len(p[1]) <= 2 for p in pages)
    post: _
    """
    # server history: page i has items pages[i][0] and token pages[i][1]; last token forced empty
    hist = [(list(it), tok) for it, tok in pages]
    seen = []
    idx = [0]
    def method(request, retry=None, timeout=None, metadata=()):
        idx[0] += 1
        seen.append((request.page_token, request.parent, request.page_size, retry, timeout, metadata))
        if idx[0] >= len(hist):
            return ListBooksResponse(books=[], next_page_token="")
        it, tok = hist[idx[0]]
        return ListBooksResponse(books=it, next_page_token=tok)
    req = ListBooksRequest(parent=parent, page_size=page_size, page_token="")
    first = ListBooksResponse(books=hist[0][0], next_page_token=hist[0][1])
    pager = pagers.ListBooksPager(method, req, first, retry="R", timeout=7, metadata=(("k","v"),))
    got = list(pager)
    # reference
    exp = []; exp_tokens = []
    i = 0
    while True:
        if i < len(hist):
            it, tok = hist[i]
        else:
            it, tok = [], ""
        exp.extend(it)
        if not tok: break
        exp_tokens.append(tok)
        i += 1
    return got == exp and [s[0] for s in seen] == exp_tokens and all(s[1:] == (parent, page_size, "R", 7, (("k","v"),)) for s in seen)
