"""C16 harness: the REAL API.build of /repo (all three passes, incl. the selective-generation pass) on
descriptor sets assembled from symbolic booleans/integers.  The symbolic inputs only SELECT the
structure (type-graph edges, RPC types, allow-listed RPCs, options): they are concretised by
comparisons under CrossHair's tracer and the real code then runs untraced; CrossHair/z3 enumerate
the feasible combinations and confirm only when the decision tree is exhausted.
Oracle: least fixed point of reachability, computed here from the same booleans."""
import contextlib
import dataclasses
import os
import warnings

from gapic.schema import api as api_mod
from gapic.utils import Options
from lib import gen

try:
    from crosshair.tracers import NoTracing, is_tracing
except Exception:  # pragma: no cover
    NoTracing = None

warnings.simplefilter("ignore")
PART = int(os.environ.get("VERIF_PART", "-1"))
CANARY = os.environ.get("VERIF_CANARY", "")
PKG = "google.example.sel.v1"
# dependency files are loaded once (none of them is a file to generate for PKG) and passed as prior_protos
_dummy = gen.FileBuilder("google/example/sel/v1/dummy.proto", PKG)
_dummy.message("Dummy", [("x", "string")])
_b = api_mod.API.build(gen.dep_files() + [_dummy.f], package=PKG, opts=Options.build("transport=grpc"))


class _Base:
    all_protos = {k: v for k, v in _b.all_protos.items() if k not in _b.protos}


_BASE = _Base
_PLAIN = Options.build("transport=grpc")
_OPTS = {}

if CANARY == "skip-enum-only-files":
    # in-memory mutant: a file is dropped as soon as it has no services and no messages
    _orig = api_mod.Proto.prune_messages_for_selective_generation

    def _mut(self, *, address_allowlist):
        if not self.services and not self.all_messages:
            return None
        return _orig(self, address_allowlist=address_allowlist)
    api_mod.Proto.prune_messages_for_selective_generation = _mut
elif CANARY == "no-nested":
    from gapic.schema import wrappers as _w
    _o2 = _w.Field.add_to_address_allowlist

    def _m2(self, *, address_allowlist, resource_messages):
        if self.enum:
            return
        return _o2(self, address_allowlist=address_allowlist, resource_messages=resource_messages)
    _w.Field.add_to_address_allowlist = _m2


def untraced():
    if NoTracing is not None and is_tracing():
        return NoTracing()
    return contextlib.nullcontext()


def conc(x, lo, hi):
    for v in range(lo, hi + 1):
        if x == v:
            return v
    raise AssertionError("selector out of range")


def in_part(e01, e02, e10, e12):
    return PART < 0 or (int(e01) + 2 * int(e02) + 4 * int(e10) + 8 * int(e12)) == PART


def opts_for(methods, internal):
    key = (tuple(methods), internal)
    if key not in _OPTS:
        cfg = {"publishing": {"library_settings": [{
            "version": PKG, "python_settings": {"common": {"selective_gapic_generation": {
                "methods": list(methods), "generate_omitted_as_internal": internal}}}}]}}
        # same value Options.build puts there after reading a service-yaml file (no file I/O under CrossHair)
        _OPTS[key] = dataclasses.replace(_PLAIN, service_yaml_config=cfg)
    return _OPTS[key]


def build_files(edges, a_in, a_out, c_io, eE, eX, rX, lro):
    """edges: {(i, j): bool} over M0..M2 (incl. (0,0)); lro: None | (resp_idx, meta_idx)"""
    enums = gen.FileBuilder("google/example/sel/v1/enums.proto", PKG)
    enums.enum("E", ["E_UNSPECIFIED", "E_ONE"])
    other = gen.FileBuilder("google/example/sel/v1/b.proto", PKG)
    other.message("X", [("name", "string")], resource=("sel.googleapis.com/X", ["xs/{x}"]))
    other.message("Y", [("name", "string")])
    fb = gen.FileBuilder("google/example/sel/v1/a.proto", PKG, deps=[enums.f.name, other.f.name])
    msgs = []
    for i in range(3):
        fields = [("id", "string")]
        for j in range(3):
            if edges.get((i, j)):
                fields.append((f"to_m{j}", f"msg:M{j}"))
        if i == 1 and eE:
            fields.append(("kind", "enum:E"))
        if i == 2 and eX:
            fields.append(("x", "msg:X"))
        if i == 1 and rX:
            fields.append(("x_name", "string", {"ref": "sel.googleapis.com/X"}))
        if i == 0:
            fields.append(("labels", "string", {"map": ("string", "string")}))
            fields.append(("by_key", "string", {"map": ("string", "msg:MV")}))     # MV is reachable only as a map value
        msgs.append(fb.message(f"M{i}", fields))
    fb.message("N", [("v", "string")], parent=msgs[0])
    fb.message("MV", [("k", "enum:MVKind")])
    fb.enum("MVKind", ["MV_UNSPECIFIED", "MV_ONE"])
    fb.enum("NE", ["NE_UNSPECIFIED"], parent=msgs[0])
    s1 = fb.service("Svc1")
    fb.method(s1, "A", f"M{a_in}", f"M{a_out}")
    if lro is None:
        fb.method(s1, "B", "M2", "M2")
    else:
        fb.method(s1, "B", "M2", "google.longrunning.Operation", lro=(f"M{lro[0]}", f"M{lro[1]}"))
    s2 = fb.service("Svc2")
    fb.method(s2, "C", f"M{c_io}", f"M{c_io}")
    return [enums.f, other.f, fb.f]


def reference(edges, a_in, a_out, c_io, eE, eX, rX, lro, keep):
    roots = set()
    if keep[0]:
        roots |= {a_in, a_out}
    if keep[1]:
        roots |= {2}
        if lro is not None:
            roots |= set(lro)
    if keep[2]:
        roots |= {c_io}
    reach = set(roots)
    changed = True
    while changed:
        changed = False
        for (i, j), on in edges.items():
            if on and i in reach and j not in reach:
                reach.add(j)
                changed = True
    msgs = {f"M{i}" for i in reach}
    if 0 in reach:
        msgs |= {"M0.N", "MV", "M0.LabelsEntry", "M0.ByKeyEntry"}      # nested type, map entries and the map's value type
    enums = set()
    if 0 in reach:
        enums |= {"M0.NE", "MVKind"}
    if 1 in reach and eE:
        enums.add("E")
    if (2 in reach and eX) or (1 in reach and rX):
        msgs.add("X")
    return msgs, enums


def run(edges, a_in, a_out, c_io, eE, eX, rX, lro, keep, internal):
    names = [n for n, k in zip(("Svc1.A", "Svc1.B", "Svc2.C"), keep) if k]
    listed = [f"{PKG}.{n}" for n in names]
    files = build_files(edges, a_in, a_out, c_io, eE, eX, rX, lro)
    api = api_mod.API.build(files, package=PKG, opts=opts_for(listed, internal), prior_protos=_BASE.all_protos)
    got_msgs = {k[len(PKG) + 1:] for k in api.messages if k.startswith(PKG + ".")}
    got_enums = {k[len(PKG) + 1:] for k in api.enums if k.startswith(PKG + ".")}
    got_methods = {f"{s.name}.{m}" for s in api.services.values() for m in s.methods}
    # dependency packages untouched: every dependency file keeps all its messages / enums / services
    for k, v in _BASE.all_protos.items():
        p = api.all_protos.get(k)
        if p is None or set(p.all_messages) != set(v.all_messages) or set(p.all_enums) != set(v.all_enums) \
                or set(p.services) != set(v.services):
            return False
    if internal:
        if got_msgs != {"M0", "M1", "M2", "M0.N", "X", "Y", "MV", "M0.LabelsEntry", "M0.ByKeyEntry"} or \
                got_enums != {"E", "M0.NE", "MVKind"}:
            return False
        if got_methods != {"Svc1.A", "Svc1.B", "Svc2.C"}:
            return False
        for s in api.services.values():
            unlisted = [m for m in s.methods if f"{s.name}.{m}" not in names]
            for mname, m in s.methods.items():
                want = ("_" if f"{s.name}.{mname}" not in names else "") + mname
                if m.client_method_name != want:
                    return False
            if s.client_name != ("Base" if unlisted else "") + s.name + "Client":
                return False
            if s.async_client_name != ("Base" if unlisted else "") + s.name + "AsyncClient":
                return False
        return True
    exp_msgs, exp_enums = reference(edges, a_in, a_out, c_io, eE, eX, rX, lro, keep)
    if got_msgs != exp_msgs or got_enums != exp_enums or got_methods != set(names):
        return False
    # no dangling reference: every kept field type is kept; files: exactly those that still hold something
    for k, m in api.messages.items():
        if not k.startswith(PKG + "."):
            continue
        for f in m.fields.values():
            t = f.message or f.enum
            if t is not None and t.ident.proto.startswith(PKG + ".") and \
                    t.ident.proto not in api.messages and t.ident.proto not in api.enums:
                return False
    exp_files = {"google/example/sel/v1/a.proto"}
    if "E" in exp_enums:
        exp_files.add("google/example/sel/v1/enums.proto")
    if "X" in exp_msgs:
        exp_files.add("google/example/sel/v1/b.proto")
    return set(api.protos) == exp_files


def closure(e01: bool, e02: bool, e10: bool, e12: bool, e20: bool, e21: bool,
            a_in: int, a_out: int, keep_a: bool, keep_b: bool, keep_c: bool, extra: int) -> bool:
    """
    pre: in_part(e01, e02, e10, e12)
    pre: 0 <= a_in <= 2 and 0 <= a_out <= 2 and 0 <= extra <= XMAX
    pre: keep_a or keep_b or keep_c
    post: _
    """
    # extra selects (self edge, enum edge, other-file edge, resource reference, LRO variant, C's type)
    edges = {(0, 1): bool(e01), (0, 2): bool(e02), (1, 0): bool(e10), (1, 2): bool(e12), (2, 0): bool(e20),
             (2, 1): bool(e21)}
    a_in, a_out, extra = conc(a_in, 0, 2), conc(a_out, 0, 2), conc(extra, 0, XMAX)
    keep = (bool(keep_a), bool(keep_b), bool(keep_c))
    with untraced():
        eE, eX, rX, lro, e00, c_io = EXTRAS[extra]
        edges[(0, 0)] = e00
        return run(edges, a_in, a_out, c_io, eE, eX, rX, lro, keep, False)


def internal(e01: bool, e12: bool, a_in: int, a_out: int, keep_a: bool, keep_b: bool, keep_c: bool) -> bool:
    """
    pre: 0 <= a_in <= 2 and 0 <= a_out <= 2
    pre: keep_a or keep_b or keep_c
    post: _
    """
    edges = {(0, 1): bool(e01), (1, 2): bool(e12)}
    a_in, a_out = conc(a_in, 0, 2), conc(a_out, 0, 2)
    keep = (bool(keep_a), bool(keep_b), bool(keep_c))
    with untraced():
        return run(edges, a_in, a_out, 1, True, False, True, None, keep, True)


def rejects(which: int, keep_a: bool, internal_flag: bool) -> bool:
    """
    pre: 0 <= which <= 3
    post: _
    """
    which = conc(which, 0, 3)
    keep_a, internal_flag = bool(keep_a), bool(internal_flag)
    with untraced():
        bad = [f"{PKG}.Svc1.Nope", "google.example.sel.v2.Svc1.A", f"{PKG}.Nope.A", "google.example.sel.v1beta1.Svc1.A"][which]
        listed = ([f"{PKG}.Svc1.A"] if keep_a else []) + [bad]
        files = build_files({(0, 1): True}, 0, 1, 2, False, False, False, None)
        try:
            api_mod.API.build(files, package=PKG, opts=opts_for(listed, internal_flag), prior_protos=_BASE.all_protos)
        except api_mod.ClientLibrarySettingsError:
            return True
        return False


def build_extended(ops_first):
    """Compute-style API: Instances.Insert is an extended operation polled through ZoneOps.Get"""
    from lib.gen import ex_ops_pb2
    fb = gen.FileBuilder("google/example/sel/v1/x.proto", PKG)
    op = fb.message("Operation", [("name", "string"), ("status", "string"), ("error_code", "int32"), ("error_message", "string")])
    for f in op.field:
        f.options.Extensions[ex_ops_pb2.operation_field] = f.number
    for n in ("InsertReq", "GetOpReq", "DelOpReq", "ListOpReq", "ListOpRsp", "GetInstReq", "Instance"):
        fb.message(n, [("name", "string")])

    def ops():
        z = fb.service("ZoneOps")
        fb.method(z, "Delete", "DelOpReq", "Operation")
        g = fb.method(z, "Get", "GetOpReq", "Operation")
        g.options.Extensions[ex_ops_pb2.operation_polling_method] = True
        fb.method(z, "List", "ListOpReq", "ListOpRsp")

    def inst():
        i = fb.service("Instances")
        m = fb.method(i, "Insert", "InsertReq", "Operation")
        m.options.Extensions[ex_ops_pb2.operation_service] = "ZoneOps"
        fb.method(i, "GetInst", "GetInstReq", "Instance")
    if ops_first:
        ops()
        inst()
    else:
        inst()
        ops()
    return [fb.f]


XM = [("Instances.Insert", ("InsertReq", "Operation")), ("Instances.GetInst", ("GetInstReq", "Instance")),
      ("ZoneOps.Delete", ("DelOpReq", "Operation")), ("ZoneOps.Get", ("GetOpReq", "Operation")),
      ("ZoneOps.List", ("ListOpReq", "ListOpRsp"))]


def extended(ops_first: bool, k0: bool, k1: bool, k2: bool, k3: bool, k4: bool) -> bool:
    """
    pre: k0 or k1 or k2 or k3 or k4
    post: _
    """
    ops_first = bool(ops_first)
    keep = [bool(k0), bool(k1), bool(k2), bool(k3), bool(k4)]
    with untraced():
        listed = [f"{PKG}.{n}" for (n, _t), k in zip(XM, keep) if k]
        api = api_mod.API.build(gen.dep_files() + build_extended(ops_first), package=PKG, opts=opts_for(listed, False))
        got_methods = {f"{s.name}.{m}" for s in api.services.values() for m in s.methods}
        got_msgs = {k[len(PKG) + 1:] for k in api.messages if k.startswith(PKG + ".")}
        # the listed RPCs plus the extended-operation polling method an initiating RPC needs
        exp_methods = {n for (n, _t), k in zip(XM, keep) if k}
        if keep[0]:
            exp_methods.add("ZoneOps.Get")
        exp_msgs = set()
        for n, types in XM:
            if n in exp_methods:
                exp_msgs |= set(types)
        if got_methods != exp_methods or got_msgs != exp_msgs:
            return False
        # the kept initiating RPC still resolves its operation service and polling method
        if keep[0]:
            ins = api.services[PKG + ".Instances"].methods["Insert"]
            svc = api.get_custom_operation_service(ins)
            if svc.operation_polling_method is None or svc.operation_polling_method.name != "Get":
                return False
        return True


def twin(e01: bool, e12: bool, keep_c: bool) -> bool:
    """
    post: _
    """
    edges = {(0, 1): bool(e01), (1, 2): bool(e12)}
    keep_c = bool(keep_c)
    with untraced():
        ok = run(edges, 0, 0, 2, True, True, False, None, (True, False, keep_c), False)
    # reachable: a transitive chain M0 -> M1 -> M2 kept through A alone
    return not (ok and e01 and e12 and not keep_c)


# (enum edge, other-file message edge, resource reference, LRO (resp, meta) | None, self edge, C's type)
EXTRAS_QUICK = [(False, False, False, None, False, 2), (True, False, True, None, False, 1), (False, True, False, (0, 1), True, 2)]
# thorough: enum edge x other-file edge x resource reference x LRO variant; the self edge follows the enum edge
# (the full product with an independent self edge, 48 variants, needs > 40 min per partition on this machine)
EXTRAS_FULL = [(eE, eX, rX, lro, eE != rX, c)
               for eE in (False, True) for eX in (False, True) for rX in (False, True)
               for lro in (None, (0, 1), (1, 1)) for c in (2,)]
EXTRAS = EXTRAS_FULL if os.environ.get("VERIF_TIER") == "thorough" else EXTRAS_QUICK
XMAX = len(EXTRAS) - 1
