"""C18 harness (validation): the real API.enforce_valid_method_settings of /repo, called on stand-ins for
`self` (all_methods / messages) so that selectors, streaming bits and the field declaration stay symbolic.
Oracle: the AIP-4235 sentence of the property."""
import contextlib
import os
from types import SimpleNamespace as NS

from google.api import field_behavior_pb2, field_info_pb2

from gapic.schema import api as api_mod
from gapic.schema import wrappers

try:
    from crosshair.core import deep_realize
    from crosshair.tracers import NoTracing, is_tracing
except Exception:  # pragma: no cover
    NoTracing = None

PART = int(os.environ.get("VERIF_PART", "-1"))
NMAX = int(os.environ.get("VERIF_NMAX", "3"))
CANARY = os.environ.get("VERIF_CANARY", "")

# index 4: an existing method written protobuf-style with a leading dot -- NOT a method name of the API (the templates
# look settings up under the undotted name), so it has to be rejected like any unknown selector
SELECTORS = ["pkg.Svc.A", "pkg.Svc.B", "pkg.Svc.Missing", "pkg.Svc.S", ".pkg.Svc.A"]
FIELDS = ["f1", "f2", "sub.f1"]

# formatting stub: the error text is rendered with yaml.dump (pure-Python, thousands of traced steps);
# only the fact that MethodSettingsError is raised matters here
_YAML_STUB = NS(dump=lambda errors: "errors: %d" % len(errors))
api_mod.yaml = _YAML_STUB

if CANARY:
    import inspect
    import textwrap
    src = textwrap.dedent(inspect.getsource(api_mod.API.enforce_valid_method_settings))
    if CANARY == "no-dup":
        src = src.replace('all_errors[method_settings.selector] = ["Duplicate selector"]', "pass", 1)
    elif CANARY == "allow-required":
        src = src.replace("if field.required:", "if False:", 1)
    ns = dict(vars(api_mod))
    exec(src, ns)
    VALIDATE = ns["enforce_valid_method_settings"]
else:
    VALIDATE = api_mod.API.enforce_valid_method_settings


def untraced():
    if NoTracing is not None and is_tracing():
        return NoTracing()
    return contextlib.nullcontext()


def in_part(s0, s1):
    return PART < 0 or (s0 * 4 + s1) == PART


def mk_field(name, typ, required, fmt):
    ext = {field_behavior_pb2.field_behavior: [field_behavior_pb2.REQUIRED] if required else [],
           field_info_pb2.field_info: NS(format=fmt)}
    return wrappers.Field(field_pb=NS(name=name, type=typ, type_name="", label=1, options=NS(Extensions=ext)))


def run(n, s0, s1, s2, nf0, nf1, nf2, a0, b0, a1, b1, a2, b2, cs, ss, f1_exists, f1_type, f1_required, f1_fmt):
    sels = [s0, s1, s2][:n]
    nfs = [nf0, nf1, nf2][:n]
    picks = [(a0, b0), (a1, b1), (a2, b2)][:n]
    f1_exists, f1_required, cs, ss = bool(f1_exists), bool(f1_required), bool(cs), bool(ss)
    settings = []
    for sel, nf, (a, b) in zip(sels, nfs, picks):
        names = [FIELDS[a], FIELDS[b]][:nf]
        settings.append(NS(selector=SELECTORS[sel], auto_populated_fields=names))
    with untraced():
        # a real MessageType (so that every accessor the validator may use -- .fields, .get_field -- is the real one) with
        # a nested message `sub` whose leaf `sub.f1` WOULD qualify if nested names were allowed
        sub_msg = wrappers.MessageType(message_pb=NS(name="Sub"), fields={"f1": mk_field("f1", 9, False, 1)},
                                       nested_enums={}, nested_messages={})
        sub_pb = NS(name="sub", type=11, type_name=".pkg.Sub", label=1,
                    options=NS(Extensions={field_behavior_pb2.field_behavior: [], field_info_pb2.field_info: NS(format=0)}))
        fields = {"f2": mk_field("f2", 9, False, 1), "sub": wrappers.Field(field_pb=sub_pb, message=sub_msg)}
        if f1_exists:
            fields["f1"] = mk_field("f1", f1_type, f1_required, f1_fmt)
        msg = wrappers.MessageType(message_pb=NS(name="Req"), fields=fields, nested_enums={}, nested_messages={})
        # real wrappers.Method objects (as in API.all_methods) over stand-in descriptors, so that every accessor of
        # Method (client_streaming, server_streaming, grpc_stub_type, ...) is the real one
        unary = wrappers.Method(method_pb=NS(name="A", client_streaming=False, server_streaming=False, input_type=".pkg.Req"),
                                input=None, output=None)
        stream = wrappers.Method(method_pb=NS(name="S", client_streaming=cs, server_streaming=ss, input_type=".pkg.Req"),
                                 input=None, output=None)
        me = NS(all_methods={"pkg.Svc.A": unary, "pkg.Svc.B": unary, "pkg.Svc.S": stream}, messages={"pkg.Req": msg})
    try:
        VALIDATE(me, settings)
        raised = False
    except api_mod.MethodSettingsError:
        raised = True
    # ---- oracle: AIP-4235 as stated by the property
    err = False
    seen = []
    for sel, nf, (a, b) in zip(sels, nfs, picks):
        if sel in seen:
            err = True              # duplicate selectors are rejected
            continue
        seen.append(sel)
        if sel in (2, 4):
            err = True              # the method must exist
            continue
        if nf == 0:
            continue
        if sel == 3 and (cs or ss):
            err = True              # ... and be unary
            continue
        for pick in [a, b][:nf]:
            if pick == 2:
                err = True          # nested name: not a top-level field
            elif pick == 0:
                if not f1_exists or f1_type != 9 or f1_required or f1_fmt != 1:
                    err = True      # top-level, non-required string annotated UUID4
    return raised == err


def conc(x, lo, hi):
    """concretise a symbolic selector by comparisons (one fork per value, under tracing)"""
    for v in range(lo, hi + 1):
        if x == v:
            return v
    raise AssertionError("selector out of range")


def in_part1(s0):
    return PART < 0 or s0 == PART


def validate_single(sel: int, nf: int, a: int, b: int, cs: bool, ss: bool,
                    f1_exists: bool, f1_type: int, f1_required: bool, f1_fmt: int) -> bool:
    """
    pre: in_part1(sel) and 0 <= sel <= 4 and 0 <= nf <= 2 and 0 <= a <= 2 and 0 <= b <= 2
    pre: f1_type == 9 or f1_type == 5 or f1_type == 12
    pre: 0 <= f1_fmt <= 2
    post: _
    """
    # one settings entry, arbitrary field declaration: every single violation of AIP-4235
    return run(1, sel, 0, 0, nf, 0, 0, a, b, 0, 0, 0, 0, cs, ss, f1_exists, f1_type, f1_required, f1_fmt)


PICKS = [(0, 0, 0), (1, 1, 1), (1, 2, 2), (1, 0, 0), (2, 1, 0)]   # (nf, a, b): none | [f2] | [sub.f1] | [f1] | [f2, f1]


def validate_multi(n: int, s0: int, s1: int, s2: int, p0: int, p1: int, p2: int, cs: bool, f1_required: bool) -> bool:
    """
    pre: 1 <= n <= NMAX and in_part1(s0)
    pre: 0 <= s0 <= 4 and 0 <= s1 <= 4 and 0 <= s2 <= 4
    pre: 0 <= p0 <= 4 and 0 <= p1 <= 4 and 0 <= p2 <= 4
    pre: n >= 2 or (s1 == 0 and p1 == 0)
    pre: n >= 3 or (s2 == 0 and p2 == 0)
    post: _
    """
    # several entries (duplicates, order, which entry is at fault); f1 is a uuid4 string that may be required.
    # Every input is a selector: realise the model, then run the real validator untraced (CrossHair still
    # enumerates all models with z3 and confirms only when the decision tree is exhausted).
    n, s0, s1, s2 = conc(n, 1, 3), conc(s0, 0, 4), conc(s1, 0, 4), conc(s2, 0, 4)
    p0, p1, p2 = conc(p0, 0, 4), conc(p1, 0, 4), conc(p2, 0, 4)
    cs, f1_required = bool(cs), bool(f1_required)
    with untraced():
        (nf0, a0, b0), (nf1, a1, b1), (nf2, a2, b2) = PICKS[p0], PICKS[p1], PICKS[p2]
        return run(n, s0, s1, s2, nf0, nf1, nf2, a0, b0, a1, b1, a2, b2, cs, False, True, 9, f1_required, 1)


def twin(cs: bool, ss: bool, f1_type: int, f1_fmt: int) -> bool:
    """
    pre: f1_type == 9 and f1_fmt == 1
    post: _
    """
    ok = run(2, 0, 3, 0, 2, 0, 0, 0, 1, 0, 0, 0, 0, cs, ss, True, f1_type, False, f1_fmt)
    return not ok
