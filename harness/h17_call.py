"""C17 call clause: the EMITTED mixin methods (sync and asyncio clients) of a program that configures all ten mixin
RPCs.  The check renders harness/h17_mixins.files(0) with a service YAML listing the three mixin APIs and a rule per
RPC into $VERIF_EMITTED; every mixin method of AlphaClient / AlphaAsyncClient is lifted unmodified.

For ALL (mixin RPC, request kind dict/message, routing-value selector, call options given or defaulted):
  exactly one dispatch, on the wrapped method registered under the transport attribute of THAT mixin RPC (the gRPC
  stub behind that attribute is diffed against the canonical path by the check, concretely); the request that travels
  is of the standard request type with the caller's values; the routing header is (`name`|`resource`, value) appended
  to the caller's metadata; retry/timeout are the caller's; the reply is handed back (None for Delete/Cancel);
  sync == async.

Symbolic inputs are integers/booleans (selectors); the real protobuf request classes are C objects, so the lifted
methods run on concretised selectors (realised-untraced pattern, DESIGN.md section 4).
"""
import inspect
import os
from types import SimpleNamespace as NS

from crosshair.tracers import NoTracing
from google.api_core import gapic_v1 as real_gapic_v1
from google.cloud.location import locations_pb2
from google.iam.v1 import iam_policy_pb2, policy_pb2
from google.longrunning import operations_pb2

from harness import h17_mixins as hm
from lib import emitted, fakes

OUT = os.environ["VERIF_EMITTED"]
CANARY = os.environ.get("VERIF_CANARY", "")

# (client method, request class, routing field, returns a reply)
MIXINS = [
    ("list_operations", operations_pb2.ListOperationsRequest, "name", True),
    ("get_operation", operations_pb2.GetOperationRequest, "name", True),
    ("delete_operation", operations_pb2.DeleteOperationRequest, "name", False),
    ("cancel_operation", operations_pb2.CancelOperationRequest, "name", False),
    ("wait_operation", operations_pb2.WaitOperationRequest, "name", True),
    ("set_iam_policy", iam_policy_pb2.SetIamPolicyRequest, "resource", True),
    ("get_iam_policy", iam_policy_pb2.GetIamPolicyRequest, "resource", True),
    ("test_iam_permissions", iam_policy_pb2.TestIamPermissionsRequest, "resource", True),
    ("get_location", locations_pb2.GetLocationRequest, "name", True),
    ("list_locations", locations_pb2.ListLocationsRequest, "name", True),
]
VALUES = ["projects/p/x/1", "", "projects/q/x/a b"]
OPTS = dict(retry="RETRY", timeout=3.5, metadata=(("a", "b"),))


def _mutate(text, which):
    if CANARY == "wrong-mixin-rpc" and which == "client":
        return text.replace("self._transport._wrapped_methods[self._transport.cancel_operation]",
                            "self._transport._wrapped_methods[self._transport.delete_operation]", 1)
    if CANARY == "async-drops-metadata" and which == "async_client":
        i = text.index("async def get_location")
        return text[:i] + text[i:].replace("metadata = tuple(metadata) + (", "metadata = (", 1)
    return text


def _md_recorder(params):
    if isinstance(params, dict):
        params = tuple(params.items())
    return ("x-goog-request-params", tuple((k, v) for k, v in params))


EC = emitted.EmittedClient(OUT, [f for f in hm.files(0)], "google.example.mx_v1", "alpha", mutate=_mutate)
_REAL = {"operations_pb2": operations_pb2, "iam_policy_pb2": iam_policy_pb2, "policy_pb2": policy_pb2,
         "locations_pb2": locations_pb2}
for _w, _c in (("client", "AlphaClient"), ("async_client", "AlphaAsyncClient")):
    for _m, _cls, _f, _r in MIXINS:
        g_ = EC.method(_w, _c, _m).__globals__
        g_["gapic_v1"] = NS(method=real_gapic_v1.method, client_info=real_gapic_v1.client_info,
                            routing_header=NS(to_grpc_metadata=_md_recorder))
        g_.update(_REAL)      # the REAL request classes: the type that travels is part of the claim


class _AsyncRec(fakes.Recorder):
    def __call__(self, request, retry=None, timeout=None, metadata=()):
        val = fakes.Recorder.__call__(self, request, retry=retry, timeout=timeout, metadata=metadata)

        async def c():
            return val
        return c()


def conc(x, lo, hi):
    for v in range(lo, hi + 1):
        if x == v:
            return v
    return lo


def one(which, idx, kind, val, with_opts):
    name, cls, field, has_reply = MIXINS[idx]
    asyn = which == "async_client"
    fn = EC.method(which, "AlphaAsyncClient" if asyn else "AlphaClient", name)
    names = [m[0] for m in MIXINS] + ["get_thing"]
    tr = fakes.FakeTransport(names)
    if asyn:
        for n in names:
            rec = _AsyncRec("REPLY")
            tr._wrapped_methods[getattr(tr, n)] = rec
            tr.recorders[n] = rec
    me = fakes.FakeClientSelf(tr)
    me._add_cred_info_for_auth_errors = lambda e: None
    me.transport = tr          # the asyncio client reads self.transport._wrapped_methods[self._client._transport.<rpc>]
    value = VALUES[val]
    request = {field: value} if kind == 0 else cls(**{field: value})
    kw = dict(OPTS) if with_opts else {}
    res = fn(me, request, **kw)
    if inspect.iscoroutine(res):
        res = fakes.drive(res)
    calls = [(n, c) for n, rec in tr.recorders.items() for c in rec.calls]
    if len(calls) != 1:
        return f"{which}.{name}: {len(calls)} dispatches"
    n, c = calls[0]
    if n != name:
        return f"{which}.{name}: dispatched on transport.{n}"
    sent = c["request_obj"]
    if type(sent) is not cls or getattr(sent, field) != value or sent != cls(**{field: value}):
        return f"{which}.{name}: sent {type(sent).__name__}({sent!r}), expected {cls.__name__}({field}={value!r})"
    want_md = (tuple(OPTS["metadata"]) if with_opts else ()) + (("x-goog-request-params", ((field, value),)),)
    if tuple(c["metadata"]) != want_md:
        return f"{which}.{name}: metadata {c['metadata']!r} != {want_md!r}"
    if with_opts:
        if c["retry"] != "RETRY" or c["timeout"] != 3.5:
            return f"{which}.{name}: retry/timeout {c['retry']!r}/{c['timeout']!r} are not the caller's"
    else:
        if c["retry"] is not real_gapic_v1.method.DEFAULT or c["timeout"] is not real_gapic_v1.method.DEFAULT:
            return f"{which}.{name}: defaulted retry/timeout {c['retry']!r}/{c['timeout']!r} are not gapic_v1.method.DEFAULT"
    if res != ("REPLY" if has_reply else None):
        return f"{which}.{name}: returned {res!r}"
    if me.validated != 1:
        return f"{which}.{name}: universe domain validated {me.validated} times"
    return None


def problem(idx, kind, val, with_opts):
    for which in ("client", "async_client"):
        p = one(which, idx, kind, val, with_opts)
        if p:
            return p
    return None


def mixin_call(which_rpc: int, kind: int, val: int, with_opts: bool) -> bool:
    """
    pre: 0 <= which_rpc <= 9 and 0 <= kind <= 1 and 0 <= val <= 2
    post: _
    """
    i, k, v = conc(which_rpc, 0, 9), conc(kind, 0, 1), conc(val, 0, 2)
    o = True if with_opts else False
    with NoTracing():
        return problem(i, k, v, o) is None


def twin(which_rpc: int, kind: int, val: int, with_opts: bool) -> bool:
    """
    pre: 0 <= which_rpc <= 9 and 0 <= kind <= 1 and 0 <= val <= 2
    post: _
    """
    i, k, v = conc(which_rpc, 0, 9), conc(kind, 0, 1), conc(val, 0, 2)
    o = True if with_opts else False
    with NoTracing():
        ok = problem(i, k, v, o) is None
    return not (ok and i == 7 and k == 1 and v == 2 and not o)
