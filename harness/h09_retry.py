"""C09 harness: the real _ProtoBuilder._get_retry_and_timeout of /repo on a stand-in builder, over gRPC service
configs assembled from symbolic selectors (entries, names per entry, timeout / policy presence, status codes).
Selectors are concretised by comparison; the real code then runs untraced.
Oracle: first methodConfig entry that names (service, method) EXACTLY."""
import contextlib
import os
from types import SimpleNamespace as NS

import grpc
from google.api_core import exceptions

from gapic.schema import api as api_mod

try:
    from crosshair.tracers import NoTracing, is_tracing
except Exception:  # pragma: no cover
    NoTracing = None

CANARY = os.environ.get("VERIF_CANARY", "")
PART = int(os.environ.get("VERIF_PART", "-1"))
SVC = "google.example.rt.v1.Library"
# names a methodConfig entry can carry; the target method is (SVC, GetBook)
NAMES = [{"service": SVC, "method": "GetBook"}, {"service": SVC, "method": "GetBookCover"},
         {"service": SVC, "method": "Get"}, {"service": "google.example.rt.v1.Other", "method": "GetBook"},
         {"service": SVC}, {"service": SVC, "method": "getbook"}]
TIMEOUTS = [None, "7.5s", "20s", "1500000000n"]
CODES = ["UNAVAILABLE", "DEADLINE_EXCEEDED", "ABORTED", "INTERNAL"]
FUNC = api_mod._ProtoBuilder._get_retry_and_timeout
if CANARY == "prefix-match":
    import inspect
    import textwrap
    src = textwrap.dedent(inspect.getsource(FUNC)).replace(
        "if selector in c.get(\"name\")",
        "if any(n.get('service') == selector['service'] and selector['method'].startswith(n.get('method', '')) for n in c.get('name'))")
    ns = dict(vars(api_mod))
    exec(src, ns)
    FUNC = ns["_get_retry_and_timeout"]


def untraced():
    if NoTracing is not None and is_tracing():
        return NoTracing()
    return contextlib.nullcontext()


def conc(x, lo, hi):
    for v in range(lo, hi + 1):
        if x == v:
            return v
    raise AssertionError("selector out of range")


def to_float(s):
    return api_mod._ProtoBuilder._to_float(None, s)


def policy(kind, codes_mask):
    if kind == 0:
        return None
    r = {"retryableStatusCodes": [c for i, c in enumerate(CODES) if codes_mask >> i & 1]}
    if kind >= 2:
        r.update({"maxAttempts": 5, "initialBackoff": "0.25s", "maxBackoff": "32s", "backoffMultiplier": 1.3})
    return r


def run(entries, target_method="GetBook"):
    """entries: list of (name indices tuple, timeout idx, policy kind, codes mask)"""
    cfg = {"methodConfig": []}
    for names, t, pk, cm in entries:
        e = {"name": [dict(NAMES[i]) for i in names]}
        if TIMEOUTS[t] is not None:
            e["timeout"] = TIMEOUTS[t]
        p = policy(pk, cm)
        if p is not None:
            e["retryPolicy"] = p
        cfg["methodConfig"].append(e)
    # a real _ProtoBuilder instance (created without running __init__), so that class-level state exists; one builder
    # serves every service of a proto file: another service of the file asks first, then the target
    me = object.__new__(api_mod._ProtoBuilder)
    me.opts = NS(retry=cfg)
    me._to_float = to_float
    FUNC(me, NS(package=("google", "example", "rt", "v1"), name="Other"), NS(name="GetBook"))
    addr = NS(package=("google", "example", "rt", "v1"), name="Library")
    retry, timeout = FUNC(me, addr, NS(name=target_method))
    # ---- oracle
    sel = None
    for names, t, pk, cm in entries:
        if any(NAMES[i] == {"service": SVC, "method": target_method} for i in names):
            sel = (t, pk, cm)
            break
    if sel is None:
        return retry is None and timeout is None
    t, pk, cm = sel
    exp_timeout = {None: None, "7.5s": 7.5, "20s": 20.0, "1500000000n": 1.5}[TIMEOUTS[t]]
    if timeout != exp_timeout:
        return False
    if pk == 0:
        return retry is None
    if retry is None:
        return False
    exp_exc = frozenset(exceptions.exception_class_for_grpc_status(getattr(grpc.StatusCode, c))
                        for i, c in enumerate(CODES) if cm >> i & 1)
    if retry.retryable_exceptions != exp_exc:
        return False
    if pk >= 2:
        return (retry.max_attempts, retry.initial_backoff, retry.max_backoff, retry.backoff_multiplier) == (5, 0.25, 32.0, 1.3)
    return (retry.max_attempts, retry.initial_backoff, retry.max_backoff, retry.backoff_multiplier) == (0, 0.0, 0.0, 0.0)


def select_single(a0: int, b0: int, t0: int, p0: int, c0: int, tm: int) -> bool:
    """
    pre: PART < 0 or a0 == PART
    pre: 0 <= a0 <= 5 and -1 <= b0 <= 5 and 0 <= t0 <= 3 and 0 <= p0 <= 2 and 0 <= c0 <= 15 and 0 <= tm <= 1
    pre: p0 > 0 or c0 == 0
    post: _
    """
    # one entry in full detail: every timeout form, policy kind and status-code subset
    a0, b0, t0, p0, c0, tm = conc(a0, 0, 5), conc(b0, -1, 5), conc(t0, 0, 3), conc(p0, 0, 2), conc(c0, 0, 15), conc(tm, 0, 1)
    with untraced():
        return run([((a0,) + ((b0,) if b0 >= 0 else ()), t0, p0, c0)], ["GetBook", "GetBookCover"][tm])


def select_multi(n: int, a0: int, b0: int, a1: int, a2: int, t0: int, t1: int, p0: int, p1: int, tm: int) -> bool:
    """
    pre: 0 <= n <= NMAX and (PART < 0 or a0 == PART)
    pre: 0 <= a0 <= 5 and -1 <= b0 <= 1 and 0 <= a1 <= 5 and 0 <= a2 <= 5
    pre: 1 <= t0 <= 2 and 1 <= t1 <= 2 and 0 <= p0 <= 1 and 0 <= p1 <= 1 and 0 <= tm <= 1
    pre: n >= 1 or (a0 == 0 and b0 == -1 and t0 == 1 and p0 == 0)
    pre: n >= 2 or (a1 == 0 and t1 == 1 and p1 == 0)
    pre: n >= 3 or a2 == 0
    post: _
    """
    # several entries: which one is selected (first exact match), with distinguishable payloads
    n, a0, b0, a1, a2 = conc(n, 0, 3), conc(a0, 0, 5), conc(b0, -1, 1), conc(a1, 0, 5), conc(a2, 0, 5)
    t0, t1, p0, p1, tm = conc(t0, 1, 2), conc(t1, 1, 2), conc(p0, 0, 1), conc(p1, 0, 1), conc(tm, 0, 1)
    with untraced():
        entries = [((a0,) + ((b0,) if b0 >= 0 else ()), t0, p0, 3 if p0 else 0),
                   ((a1,), t1, 2 * p1, 5 if p1 else 0),
                   ((a2,), 3, 0, 0)][:n]
        return run(entries, ["GetBook", "GetBookCover"][tm])


def twin(t0: int, c0: int) -> bool:
    """
    pre: 0 <= t0 <= 3 and 0 <= c0 <= 15
    post: _
    """
    t0, c0 = conc(t0, 0, 3), conc(c0, 0, 15)
    with untraced():
        ok = run([((1,), 1, 0, 0), ((0, 3), t0, 2, c0)])
    return not (ok and t0 == 2 and c0 == 3)


NMAX = int(os.environ.get("VERIF_NMAX", "2"))
