"""C17 harness: the REAL API.build + API.mixin_api_methods / mixin_http_options of /repo on a two-service API and a
service YAML assembled from symbolic selectors (which mixin APIs are listed, which of their RPCs have an http rule,
whether and where the API defines SetIamPolicy itself).  Selectors are concretised by comparison; real code runs untraced."""
import contextlib
import dataclasses
import os
import warnings

from gapic.schema import api as api_mod
from gapic.utils import Options
from lib import gen

try:
    from crosshair.tracers import NoTracing, is_tracing
except Exception:  # pragma: no cover
    NoTracing = None

warnings.simplefilter("ignore")
CANARY = os.environ.get("VERIF_CANARY", "")
PART = int(os.environ.get("VERIF_PART", "-1"))
PKG = "google.example.mx.v1"
OPS = ["GetOperation", "CancelOperation", "ListOperations", "DeleteOperation", "WaitOperation"]
IAM = ["SetIamPolicy", "GetIamPolicy", "TestIamPermissions"]
LOC = ["GetLocation", "ListLocations"]
FQN = {**{m: "google.longrunning.Operations." + m for m in OPS}, **{m: "google.iam.v1.IAMPolicy." + m for m in IAM},
       **{m: "google.cloud.location.Locations." + m for m in LOC}}
OPS_SETS = [[], ["GetOperation"], ["GetOperation", "CancelOperation"], OPS]
IAM_SETS = [[], ["SetIamPolicy"], IAM]
LOC_SETS = [[], ["GetLocation"], LOC]

if CANARY == "first-service-only":
    def _mut(self):
        if not self.has_iam_mixin:
            return False
        names = self._get_methods_from_service(api_mod.iam_policy_pb2)
        for s in self.services.values():
            return any(n in s.methods for n in names)
        return False
    api_mod.API._has_iam_overrides = property(_mut)


def untraced():
    if NoTracing is not None and is_tracing():
        return NoTracing()
    return contextlib.nullcontext()


def conc(x, lo, hi):
    for v in range(lo, hi + 1):
        if x == v:
            return v
    raise AssertionError("selector out of range")


def rule_for(m):
    if m in ("GetOperation", "GetLocation"):
        return {"selector": FQN[m], "get": "/v1/{name=projects/*/x/*}"}
    if m in ("ListOperations", "ListLocations"):
        return {"selector": FQN[m], "get": "/v1/{name=projects/*}/xs"}
    if m == "DeleteOperation":
        return {"selector": FQN[m], "delete": "/v1/{name=projects/*/x/*}"}
    if m == "GetIamPolicy":
        # two bindings on ONE path (different verb and body) and a third on another path
        return {"selector": FQN[m], "get": "/v1/{resource=projects/*/x/*}:getIamPolicy",
                "additional_bindings": [{"post": "/v1/{resource=projects/*/x/*}:getIamPolicy", "body": "*"},
                                        {"get": "/v1/{resource=folders/*/x/*}:getIamPolicy"}]}
    return {"selector": FQN[m], "post": "/v1/{%s=projects/*/x/*}:%s" % ("resource" if m in IAM else "name", m), "body": "*"}


def files(override):
    fb = gen.FileBuilder("google/example/mx/v1/mx.proto", PKG)
    fb.message("Req", [("name", "string")])
    fb.message("Rsp", [("x", "string")])
    a = fb.service("Alpha")
    fb.method(a, "GetThing", "Req", "Rsp", http=("get", "/v1/{name=a/*}"))
    if override == 1:
        fb.method(a, "SetIamPolicy", "Req", "Rsp", http=("post", "/v1/{name=a/*}:set", "*"))
    b = fb.service("Beta")
    fb.method(b, "List", "Req", "Rsp", http=("get", "/v1/{name=b/*}"))
    if override == 2:
        fb.method(b, "SetIamPolicy", "Req", "Rsp", http=("post", "/v1/{name=b/*}:set", "*"))
    if override == 3:
        fb.method(b, "TestIamPermissions", "Req", "Rsp", http=("post", "/v1/{name=b/*}:test", "*"))
    return [fb.f]


def build(apis_mask, ops, iam, loc, unrelated, override, order=0):
    groups = [list(OPS_SETS[ops]), list(IAM_SETS[iam]), list(LOC_SETS[loc])]
    if order == 0:
        names_ = groups[0] + groups[1] + groups[2]
    elif order == 1:
        names_ = list(reversed(groups[0] + groups[1] + groups[2]))
    else:   # interleaved: the rules of one mixin API are not contiguous in the YAML
        names_ = []
        while any(groups):
            for g_ in groups:
                if g_:
                    names_.append(g_.pop(0))
    rules = [rule_for(m) for m in names_]
    if unrelated:
        rules.append({"selector": "google.example.mx.v1.Alpha.GetThing", "get": "/v2/{name=a/*}"})
    names = [n for i, n in enumerate(("google.longrunning.Operations", "google.iam.v1.IAMPolicy",
                                      "google.cloud.location.Locations")) if apis_mask >> i & 1]
    cfg = {"apis": [{"name": PKG + ".Alpha"}] + [{"name": n} for n in names], "http": {"rules": rules}}
    opts = dataclasses.replace(Options.build("transport=grpc+rest"), service_yaml_config=cfg)
    return api_mod.API.build(gen.dep_files() + files(override), package=PKG, opts=opts)


def selection(apis_mask: int, ops: int, iam: int, loc: int, unrelated: bool, override: int, order: int) -> bool:
    """
    pre: 0 <= apis_mask <= 7 and (PART < 0 or apis_mask == PART)
    pre: 0 <= ops <= 3 and 0 <= iam <= 2 and 0 <= loc <= 2 and 0 <= override <= 3 and 0 <= order <= 2
    post: _
    """
    apis_mask, ops, iam, loc, override = conc(apis_mask, 0, 7), conc(ops, 0, 3), conc(iam, 0, 2), conc(loc, 0, 2), conc(override, 0, 3)
    order = conc(order, 0, 2)
    unrelated = bool(unrelated)
    with untraced():
        api = build(apis_mask, ops, iam, loc, unrelated, override, order)
        got = set(api.mixin_api_methods)
        exp = set()
        if apis_mask & 1:
            exp |= set(OPS_SETS[ops])
        if apis_mask & 4:
            exp |= set(LOC_SETS[loc])
        local = {0: None, 1: "SetIamPolicy", 2: "SetIamPolicy", 3: "TestIamPermissions"}[override]
        iam_ruled = set(IAM_SETS[iam]) if apis_mask & 2 else set()
        if local in iam_ruled:
            # IAM mixins yield to the same-named RPC of the API.  The sentence can be read per RPC (the others stay) or,
            # as the code documents, all-or-nothing; both agree that the clashing RPC is not a mixin and nothing
            # unconfigured appears.
            got_iam = got & set(IAM)
            if local in got_iam or not got_iam <= iam_ruled:
                return False
            exp |= got_iam
        else:
            exp |= iam_ruled
        if got != exp:
            return False
        if (api.has_operations_mixin, api.has_iam_mixin, api.has_location_mixin) != (bool(apis_mask & 1), bool(apis_mask & 2), bool(apis_mask & 4)):
            return False
        # REST option table of every exposed mixin equals its YAML rule
        opts_tab = api.mixin_http_options
        if set(opts_tab) != exp:
            return False
        for m in exp:
            r = rule_for(m)
            want = []
            for b in [r] + list(r.get("additional_bindings", [])):
                verb = [k for k in ("get", "post", "delete") if k in b][0]
                want.append((verb, b[verb], b.get("body") or None))
            rows = [(x.method, x.uri, x.body) for x in opts_tab[m]]
            if rows != want:
                return False
        return True
