"""C08 harness.
 (A) generation-time clause: the REAL API.build on descriptors whose LRO annotation is assembled from symbolic
     selectors (output type, annotation present, response / metadata type names: empty, relative same file, relative
     other file that is not imported, package-qualified, google.protobuf.Empty).
 (B) emitted client methods of lib.apis.lro_api() (lifted unmodified): the future is built from the wrapped call's
     reply, the transport's operations client and the annotated response / metadata classes."""
import contextlib
import os
import warnings
from typing import Optional

from gapic.schema import api as api_mod
from gapic.utils import Options
from lib import apis, emitted, fakes, gen

try:
    from crosshair.tracers import NoTracing, is_tracing
except Exception:  # pragma: no cover
    NoTracing = None

warnings.simplefilter("ignore")
OUT = os.environ.get("VERIF_EMITTED", "")
CANARY = os.environ.get("VERIF_CANARY", "")
PKG = "google.example.lr.v1"
_OPTS = Options.build("transport=grpc")
TYPES = ["", "Book", "IndexReport", PKG + ".WriteMetadata", "google.protobuf.Empty", PKG + ".IndexMetadata"]
RESOLVED = {"Book": PKG + ".Book", "IndexReport": PKG + ".IndexReport"}

if CANARY == "resolve-root":
    from gapic.schema import metadata as _md
    _md.Address.resolve = lambda self, selector: selector if "." in selector else "google.example." + selector


def untraced():
    if NoTracing is not None and is_tracing():
        return NoTracing()
    return contextlib.nullcontext()


def conc(x, lo, hi):
    for v in range(lo, hi + 1):
        if x == v:
            return v
    raise AssertionError("selector out of range")


def build(returns_op, annotated, resp, meta):
    # a file of an ENCLOSING package that declares messages with the same short names: relative operation_info names
    # are resolved in the method's own package, not in an outer one
    outer = gen.FileBuilder("google/example/common.proto", "google.example")
    outer.message("Book", [("outer", "string")])
    outer.message("IndexReport", [("outer", "string")])
    idx = gen.FileBuilder("google/example/lr/v1/index.proto", PKG)
    idx.message("IndexReport", [("pages", "int32")])
    idx.message("IndexMetadata", [("progress", "int32")])
    fb = gen.FileBuilder("google/example/lr/v1/library.proto", PKG)
    fb.message("Book", [("name", "string")])
    fb.message("WriteMetadata", [("progress", "int32")])
    fb.message("Req", [("name", "string")])
    s = fb.service("Library")
    out = "google.longrunning.Operation" if returns_op else "Book"
    fb.method(s, "Do", "Req", out, lro=(TYPES[resp], TYPES[meta]) if annotated else None)
    return api_mod.API.build(gen.dep_files() + [outer.f, idx.f, fb.f], package=PKG, opts=_OPTS)


def generation(returns_op: bool, annotated: bool, resp: int, meta: int) -> bool:
    """
    pre: 0 <= resp <= 5 and 0 <= meta <= 5
    post: _
    """
    returns_op, annotated = bool(returns_op), bool(annotated)
    resp, meta = conc(resp, 0, 5), conc(meta, 0, 5)
    with untraced():
        try:
            api = build(returns_op, annotated, resp, meta)
        except TypeError:
            # rejected at generation time: exactly when an annotated Operation method lacks a type name
            return returns_op and annotated and (resp == 0 or meta == 0)
        if returns_op and annotated and (resp == 0 or meta == 0):
            return False
        m = api.services[PKG + ".Library"].methods["Do"]
        if not (returns_op and annotated):
            # raw Operation (or an ordinary method): no typed future
            return m.lro is None
        if m.lro is None:
            return False
        want_r = RESOLVED.get(TYPES[resp], TYPES[resp])
        want_m = RESOLVED.get(TYPES[meta], TYPES[meta])
        return m.lro.response_type.ident.proto == want_r and m.lro.metadata_type.ident.proto == want_m


# ---------------------------------------------------------------------------- (B)
if OUT:
    _FDPS = [fb.f for fb in apis.lro_api()]
    EC = emitted.EmittedClient(OUT, _FDPS, "google.example.lr_v1", "library")
    P = "." + PKG + "."
    Req, Book = EC.cls(P + "Req"), EC.cls(P + "Book")
    EXPECT = {"write_book": (Book, EC.cls(P + "WriteMetadata")),
              "rebuild_index": (EC.cls(P + "IndexReport"), EC.cls(P + "IndexMetadata")),
              "clean_up": (EC.cls(".google.protobuf.Empty"), EC.cls(P + "WriteMetadata")),
              "reindex_book": (Book, EC.cls(P + "IndexMetadata"))}
    RPCS = ["write_book", "rebuild_index", "clean_up", "reindex_book", "raw_op", "get_book"]
    for _w, _c in (("client", "LibraryClient"), ("async_client", "LibraryAsyncClient")):
        for _m in RPCS:
            EC.method(_w, _c, _m)


def call(which, method, request):
    asyn = which == "async_client"
    fn = EC.method(which, "LibraryAsyncClient" if asyn else "LibraryClient", method)
    tr = fakes.FakeTransport(RPCS, recorder_cls=fakes.AsyncRecorder if asyn else fakes.Recorder, reply="RAW-OP")
    me = fakes.FakeClientSelf(tr)
    res = fn(me, request)
    if asyn:
        res = fakes.drive(res)
    return res, tr


def futures(which_rpc: int, named: bool) -> bool:
    """
    pre: 0 <= which_rpc <= 4
    post: _
    """
    which_rpc, named = conc(which_rpc, 0, 4), bool(named)
    with untraced():
        m = ["write_book", "rebuild_index", "clean_up", "raw_op", "reindex_book"][which_rpc]
        for which in ("client", "async_client"):
            res, tr = call(which, m, Req(name="books/b") if named else None)
            if tr.total_calls() != 1 or len(tr.recorders[m].calls) != 1:
                return False
            if m == "raw_op":
                if res != "RAW-OP":
                    return False
                continue
            kind = "operation_async" if which == "async_client" else "operation"
            if res != ("FUTURE", kind, "RAW-OP", "OPERATIONS_CLIENT") + EXPECT[m]:
                return False
        return True


# ---------------------------------------------------------------------------- (C) operations client binding
import ast as _ast
from types import SimpleNamespace as _NS

HOSTS = ["lib.googleapis.com", "library-emulator.internal.test:8443", "https://eu-lib.googleapis.com"]


def _lift_ops_client(fname, cls_suffix):
    path = os.path.join(OUT, "google/example/lr_v1/services/library/transports", fname)
    text = open(path).read()
    if CANARY == "ops-default-host":
        text = text.replace("host=self._host,", "host=self.DEFAULT_HOST,")
    tree = _ast.parse(text)
    cls = [n for n in tree.body if isinstance(n, _ast.ClassDef) and n.name.endswith(cls_suffix)][0]
    fn = [n for n in cls.body if isinstance(n, _ast.FunctionDef) and n.name == "operations_client"][0]
    fn.decorator_list = []
    fn.returns = None
    mod = _ast.Module(body=[fn], type_ignores=[])
    _ast.fix_missing_locations(mod)

    class Rec:
        def __init__(self, kind):
            self.kind = kind

        def __call__(self, *a, **k):
            return (self.kind, a, tuple(sorted((x, repr(y)) for x, y in k.items() if x not in ("http_options",))), k.get("transport"))
    ns = {"operations_v1": _NS(OperationsClient=Rec("OperationsClient"), OperationsAsyncClient=Rec("OperationsAsyncClient"),
                               OperationsRestTransport=Rec("OperationsRestTransport"),
                               AbstractOperationsClient=Rec("AbstractOperationsClient")),
          "Dict": dict, "List": list}
    exec(compile(mod, "emitted:" + fname + ":operations_client", "exec"), ns)
    return ns["operations_client"]


if OUT:
    OPS = {k: _lift_ops_client(f, c) for k, (f, c) in {"grpc": ("grpc.py", "GrpcTransport"),
                                                        "grpc_asyncio": ("grpc_asyncio.py", "GrpcAsyncIOTransport"),
                                                        "rest": ("rest.py", "RestTransport")}.items()}


def ops_binding(kind: int, host: int) -> bool:
    """
    pre: 0 <= kind <= 2 and 0 <= host <= 2
    post: _
    """
    kind, host = conc(kind, 0, 2), conc(host, 0, 2)
    with untraced():
        k = ["grpc", "grpc_asyncio", "rest"][kind]
        me = _NS(_operations_client=None, _logged_channel=("CHANNEL", HOSTS[host]), _grpc_channel=("RAW", HOSTS[host]),
                 _host=HOSTS[host], DEFAULT_HOST="lib.googleapis.com", _credentials=("CRED", host), _scopes=("S", host))
        c1 = OPS[k](me)
        c2 = OPS[k](me)
        if c1 is not c2:
            return False          # cached on the instance
        if k == "rest":
            if c1[0] != "AbstractOperationsClient":
                return False
            tr = c1[3]
            kw = dict(tr[2])
            return tr[0] == "OperationsRestTransport" and kw.get("host") == repr(HOSTS[host]) and \
                kw.get("credentials") == repr(("CRED", host)) and kw.get("scopes") == repr(("S", host))
        want = "OperationsAsyncClient" if k == "grpc_asyncio" else "OperationsClient"
        # the polling client sits on the SAME channel as the service's own stubs
        return c1[0] == want and c1[1] == (("CHANNEL", HOSTS[host]),)
