"""C04 harness.
 (A) emitted rest_base.py (rendered from /repo's templates into $VERIF_EMITTED): the nested _Base<Method> classes
     are lifted with ast and executed unmodified; json_format.MessageToJson / json.loads are pass-through stubs (they
     are protobuf's / the stdlib's).  Symbolic: which keys the transcoded query dict already holds.
 (B) the real Method.query_params / path_params on a real google.api.HttpRule: symbolic body kind, path-variable
     subset, verb.
Selectors are concretised by comparison; the code then runs untraced."""
import ast
import contextlib
import os
from types import SimpleNamespace as NS
from typing import Any, Dict, List

from google.api import annotations_pb2, http_pb2

from gapic.schema import wrappers

try:
    from crosshair.tracers import NoTracing, is_tracing
except Exception:  # pragma: no cover
    NoTracing = None

OUT = os.environ.get("VERIF_EMITTED", "")
NUMERIC = os.environ.get("VERIF_NUMERIC", "0") == "1"
CANARY = os.environ.get("VERIF_CANARY", "")


def untraced():
    if NoTracing is not None and is_tracing():
        return NoTracing()
    return contextlib.nullcontext()


def conc(x, lo, hi):
    for v in range(lo, hi + 1):
        if x == v:
            return v
    raise AssertionError("selector out of range")


class _Json:
    """json_format.MessageToJson(x, use_integers_for_enums=b) -> marker; json.loads(marker) -> dict copy"""
    calls: List[Any] = []

    @staticmethod
    def MessageToJson(msg, use_integers_for_enums=None, **kw):
        _Json.calls.append(use_integers_for_enums)
        return ("JSON", dict(msg))

    @staticmethod
    def loads(marker):
        assert marker[0] == "JSON"
        return dict(marker[1])


def load_base():
    path = os.path.join(OUT, "google/example/rs_v1/services/library/transports/rest_base.py")
    text = open(path).read()
    if CANARY == "inject-present":
        text = text.replace("if k not in message_dict}", "}")
    tree = ast.parse(text)
    outer = [n for n in tree.body if isinstance(n, ast.ClassDef) and n.name == "_BaseLibraryRestTransport"][0]
    classes = [n for n in outer.body if isinstance(n, ast.ClassDef)]
    holder = NS()
    ns = {"Dict": Dict, "Any": Any, "List": List, "json_format": _Json, "json": _Json,
          "_BaseLibraryRestTransport": holder, "path_template": None, "library": None}
    for c in classes:
        mod = ast.Module(body=[c], type_ignores=[])
        ast.fix_missing_locations(mod)
        exec(compile(mod, "emitted:rest_base.py:" + c.name, "exec"), ns)
        setattr(holder, c.name, ns[c.name])
    return holder


BASE = load_base() if OUT else None

# JSON keys of GetRequest in the query dict; (key, required & not path/body?, typed default)
GET_KEYS = [("rStr", ""), ("rInt", 0), ("rI64", 0), ("rBool", False), ("rFloat", 0.0), ("rDouble", 0.0),
            ("rBytes", b""), ("rU32", 0), ("class", "")]
VALS = {"rStr": "v", "rInt": 7, "rI64": 8, "rBool": True, "rFloat": 1.5, "rDouble": 2.5, "rBytes": "Yg==", "rU32": 9,
        "class": "c", "opt": "o", "name": "things/t"}


def required_get(p0: bool, p1: bool, p2: bool, p3: bool, p4: bool, p5: bool, p6: bool, p7: bool, p8: bool,
                 opt: bool, empty_str: bool) -> bool:
    """
    post: _
    """
    present = [bool(x) for x in (p0, p1, p2, p3, p4, p5, p6, p7, p8)]
    opt, empty_str = bool(opt), bool(empty_str)
    with untraced():
        q = {}
        for (k, _d), on in zip(GET_KEYS, present):
            if on:
                q[k] = VALS[k]
        if present[0] and empty_str:
            q["rStr"] = ""          # present but default-valued: must be kept as is
        if opt:
            q["opt"] = VALS["opt"]
        _Json.calls.clear()
        got = BASE._BaseGetThing._get_query_params_json({"query_params": dict(q)})
        exp = dict(q)
        for k, d in GET_KEYS:
            if k not in exp:
                exp[k] = d
        if NUMERIC:
            exp["$alt"] = "json;enum-encoding=int"
        # non-scalar required fields are outside the assertion (see DESIGN): drop them from the comparison
        for k in ("rEnum", "rMsg", "rRep"):
            got.pop(k, None)
        if _Json.calls != [NUMERIC]:
            return False
        return got == exp and all(type(got[k]) is type(exp[k]) for k in exp)


def required_others(which: int, a: bool, b: bool, c: bool) -> bool:
    """
    pre: 0 <= which <= 5
    post: _
    """
    which = conc(which, 0, 5)
    a, b, c = bool(a), bool(b), bool(c)
    with untraced():
        # (class, required non-path non-body keys with defaults, an optional key)
        cls, req, optkey = [("_BasePutThing", [("rStr", "")], "mode"),            # name in path, book is the body
                            ("_BasePostThing", [], "extra"),                       # body '*': nothing is a query param
                            ("_BasePatchThing", [("rStr", "")], None),             # book.name in path, book is the body
                            ("_BaseDeleteThing", [("etag", ""), ("rev", 0)], None),   # rev: required + proto3 optional
                            ("_BaseTwoVars", [("view", "")], None),
                            ("_BaseListThings", [], "page")][which]                # no required field at all
        q = {}
        if a and req:
            q[req[0][0]] = "set"
        if b and optkey:
            q[optkey] = 3
        if c:
            q["unrelated"] = "x"
        _Json.calls.clear()
        got = getattr(BASE, cls)._get_query_params_json({"query_params": dict(q)})
        exp = dict(q)
        for k, d in req:
            exp.setdefault(k, d)
        if NUMERIC:
            exp["$alt"] = "json;enum-encoding=int"
        return got == exp and _Json.calls == [NUMERIC]


FIELDS = ["name", "parent", "book", "mask", "view", "class"]


def _method(verb, uri, body, fields):
    rule = http_pb2.HttpRule()
    if verb is not None:
        setattr(rule, verb, uri)
        if body is not None:
            rule.body = body
    ext = {annotations_pb2.http: rule}
    return wrappers.Method(method_pb=NS(name="M", options=NS(Extensions=ext)),
                           input=NS(fields={f: None for f in fields}), output=None)


def query_params(verb: int, v_name: bool, v_parent: bool, templ: bool, body: int, extra_field: bool) -> bool:
    """
    pre: 0 <= verb <= 5 and 0 <= body <= 3
    post: _
    """
    verb, body = conc(verb, 0, 5), conc(body, 0, 3)
    v_name, v_parent, templ, extra_field = bool(v_name), bool(v_parent), bool(templ), bool(extra_field)
    with untraced():
        vname = [None, "get", "put", "post", "delete", "patch"][verb]
        pieces = ["/v1"]
        pvars = []
        if v_parent:
            pieces.append("{parent=shelves/*}" if templ else "{parent}")
            pvars.append("parent")
        pieces.append("things")
        if v_name:
            pieces.append("{name=things/*/parts/**}" if templ else "{name}")
            pvars.append("name")
        uri = "/".join(pieces)
        b = [None, "*", "book", "class"][body]
        fields = FIELDS + (["extra"] if extra_field else [])
        m = _method(vname, uri, b, fields)
        got_q, got_p = m.query_params, list(m.path_params)
        if vname is None:
            return got_q == set() and got_p == []
        if got_p != pvars:
            return False
        if b == "*":
            return got_q == set()
        exp = set(fields) - set(pvars) - ({b} if b else set())
        return got_q == exp


def twin(p0: bool, opt: bool) -> bool:
    """
    post: _
    """
    ok = required_get(p0, False, True, False, False, False, False, False, False, opt, False)
    return not (ok and p0 and opt)


# ---------------------------------------------------------------------------- (C) the emitted _get_response
def load_rest():
    path = os.path.join(OUT, "google/example/rs_v1/services/library/transports/rest.py")
    text = open(path).read()
    if CANARY == "drop-delete-body":
        text = text.replace("data=body,", 'data=body if method in ("post", "put", "patch") else None,')
    tree = ast.parse(text)
    outer = [n for n in tree.body if isinstance(n, ast.ClassDef) and n.name == "LibraryRestTransport"][0]
    fns = {}
    for c in outer.body:
        if isinstance(c, ast.ClassDef):
            for f in c.body:
                if isinstance(f, ast.FunctionDef) and f.name == "_get_response":
                    f.decorator_list = []
                    mod = ast.Module(body=[f], type_ignores=[])
                    ast.fix_missing_locations(mod)
                    ns = {"rest_helpers": NS(flatten_query_params=lambda q, strict=False: ("FLAT", tuple(sorted(q.items())), strict))}
                    exec(compile(mod, "emitted:rest.py:" + c.name + "._get_response", "exec"), ns)
                    fns[c.name] = (ns["_get_response"], [a.arg for a in f.args.args])
    return fns


REST = load_rest() if OUT else None
SENDERS = ["_GetThing", "_PutThing", "_PostThing", "_PatchThing", "_DeleteThing", "_TwoVars", "_PurgeThings", "_WatchThings"]
VERBS = ["get", "put", "post", "patch", "delete"]


class _Session:
    def __init__(self):
        self.calls = []

    def __getattr__(self, verb):
        if verb.startswith("_"):
            raise AttributeError(verb)

        def send(url, **kw):
            self.calls.append((verb, url, kw))
            return ("RESPONSE", verb)
        return send


def send(which: int, verb: int, with_query: bool) -> bool:
    """
    pre: 0 <= which <= 7 and 0 <= verb <= 4
    post: _
    """
    which, verb, with_query = conc(which, 0, 7), conc(verb, 0, 4), bool(with_query)
    with untraced():
        fn, params = REST[SENDERS[which]]
        sess = _Session()
        q = {"a": 1} if with_query else {}
        tr = {"uri": "/v1/x/y", "method": VERBS[verb], "body": "ignored", "query_params": "ignored"}
        args = dict(host="https://h.example", metadata=[("k", "v")], query_params=q, session=sess, timeout=4.5, transcoded_request=tr)
        has_body = SENDERS[which] in ("_PutThing", "_PostThing", "_PatchThing", "_PurgeThings")   # rules declaring a body
        if has_body:
            args["body"] = '{"payload": true}'
        out = fn(**args)
        if out != ("RESPONSE", VERBS[verb]) or len(sess.calls) != 1:
            return False
        v, url, kw = sess.calls[0]
        # verb and URL are the binding chosen by transcoding; the payload travels whenever the rule declares a body,
        # whatever the verb; query parameters are flattened strictly; caller metadata becomes headers
        if v != VERBS[verb] or url != "https://h.example/v1/x/y" or kw.get("timeout") != 4.5:
            return False
        if kw.get("params") != ("FLAT", tuple(sorted(q.items())), True):
            return False
        if kw.get("headers") != {"k": "v", "Content-Type": "application/json"}:
            return False
        if has_body:
            return kw.get("data") == '{"payload": true}'
        return "data" not in kw or kw.get("data") is None
