"""C15 harness: the REAL API.build + API.gapic_metadata / Method.legacy_flattened_fields of /repo on descriptor sets
and options selected by symbolic booleans/integers (concretised by comparison, then run untraced)."""
import contextlib
import dataclasses
import json
import keyword
import os
import re
import warnings

from google.protobuf.json_format import MessageToDict

from gapic.schema import api as api_mod
from gapic.utils import Options
from lib import gen

try:
    from crosshair.tracers import NoTracing, is_tracing
except Exception:  # pragma: no cover
    NoTracing = None

warnings.simplefilter("ignore")
CANARY = os.environ.get("VERIF_CANARY", "")
PKG = "google.example.md.v1"
TRANSPORTS = ["grpc", "rest", "grpc+rest"]
RPCS_ALPHA = ["GetThing", "Import", "CreateChannel"]

if CANARY == "sort-by-number":
    import collections
    from gapic.schema import wrappers as _w
    _w.Method.legacy_flattened_fields = property(lambda self: collections.OrderedDict(
        (f.name, f) for f in sorted(self.input.fields.values(), key=lambda f: (not f.required, f.number))))
elif CANARY == "rest-async":
    _orig = api_mod.API.gapic_metadata

    def _mut(self, options):
        gm = _orig(self, options)
        if "rest" in options.transport and "grpc" not in options.transport:
            for s in gm.services.values():
                s.clients.get_or_create("grpc-async").library_client = "X"
        return gm
    api_mod.API.gapic_metadata = _mut


def untraced():
    if NoTracing is not None and is_tracing():
        return NoTracing()
    return contextlib.nullcontext()


def conc(x, lo, hi):
    for v in range(lo, hi + 1):
        if x == v:
            return v
    raise AssertionError("selector out of range")


def snake(name):
    lead = "_" if name.startswith("_") else ""
    return lead + re.sub(r"(?<!^)(?=[A-Z])", "_", name.lstrip("_")).lower()


def files():
    fb = gen.FileBuilder("google/example/md/v1/md.proto", PKG)
    fb.message("Req", [("name", "string")])
    fb.message("Rsp", [("x", "string")])
    a = fb.service("Alpha")
    for m in RPCS_ALPHA:
        fb.method(a, m, "Req", "Rsp", http=("get", "/v1/{name=a/*}:" + m.lower()))
    b = fb.service("Beta")
    # no http rule: the RPC is still part of the surface of every client kind, rest included
    fb.method(b, "List", "Req", "Rsp")
    # the same RPC name in a second service: names must be resolved per service
    fb.method(b, "GetThing", "Req", "Rsp", http=("get", "/v1/{name=b/*}:thing"))
    # a service that declares no RPC of its own still has clients, so it is listed (without rpcs)
    fb.service("Gamma")
    return [fb.f]


NAMINGS = [("", "google.example.md_v1"),
           (",python-gapic-namespace=acme.cloud", "acme.cloud.md_v1"),
           (",python-gapic-name=bookshelf", "google.example.bookshelf_v1"),
           (",python-gapic-namespace=acme.cloud,python-gapic-name=bookshelf", "acme.cloud.bookshelf_v1")]


def metadata(transport: int, selective: bool, k0: bool, k1: bool, k2: bool, kb: bool, kb2: bool, naming: int = 0) -> bool:
    """
    pre: 0 <= transport <= 2
    pre: 0 <= naming <= 3
    pre: selective or (k0 and k1 and k2 and kb and kb2)
    pre: k0 or k1 or k2 or kb or kb2
    post: _
    """
    transport = conc(transport, 0, 2)
    naming = conc(naming, 0, 3)
    selective, keep = bool(selective), [bool(k0), bool(k1), bool(k2), bool(kb), bool(kb2)]
    with untraced():
        opts = Options.build("transport=" + TRANSPORTS[transport] + NAMINGS[naming][0])
        listed = [f"{PKG}.Alpha.{m}" for m, k in zip(RPCS_ALPHA, keep) if k] + ([f"{PKG}.Beta.List"] if keep[3] else []) + \
            ([f"{PKG}.Beta.GetThing"] if keep[4] else [])
        if selective:
            cfg = {"publishing": {"library_settings": [{"version": PKG, "python_settings": {"common": {
                "selective_gapic_generation": {"methods": listed, "generate_omitted_as_internal": True}}}}]}}
            opts = dataclasses.replace(opts, service_yaml_config=cfg)
        api = api_mod.API.build(gen.dep_files() + files(), package=PKG, opts=opts)
        got = MessageToDict(api.gapic_metadata(opts))
        # ---- reference
        t = TRANSPORTS[transport].split("+")
        kinds = (["grpc", "grpc-async"] if "grpc" in t else []) + (["rest"] if "rest" in t else [])
        exp_services = {}
        for svc, rpcs, ks in (("Alpha", RPCS_ALPHA, keep[:3]), ("Beta", ["List", "GetThing"], keep[3:])):
            internal_any = selective and not all(ks)
            clients = {}
            for kind in kinds:
                cname = ("Base" if internal_any else "") + svc + ("AsyncClient" if kind == "grpc-async" else "Client")
                rp = {}
                for m, k in zip(rpcs, ks):
                    name = m + ("_" if keyword.iskeyword(m.lower()) else "")
                    if selective and not k:
                        name = "_" + name
                    rp[m] = {"methods": [snake(name)]}
                clients[kind] = {"libraryClient": cname, "rpcs": rp}
            exp_services[svc] = {"clients": clients}
        exp_services["Gamma"] = {"clients": {kind: {"libraryClient": "Gamma" + ("AsyncClient" if kind == "grpc-async" else "Client")}
                                             for kind in kinds}}
        exp = {"schema": "1.0", "comment": got.get("comment"), "language": "python", "protoPackage": PKG,
               "libraryPackage": NAMINGS[naming][1], "services": exp_services}
        return got == exp


ORDER = [("f_a", 1), ("f_e", 5), ("f_b", 2), ("f_d", 4), ("f_c", 3)]


def legacy_order(r0: bool, r1: bool, r2: bool, r3: bool, r4: bool) -> bool:
    """
    post: _
    """
    req = [bool(r0), bool(r1), bool(r2), bool(r3), bool(r4)]
    with untraced():
        fb = gen.FileBuilder("google/example/md/v1/md.proto", PKG)
        fb.message("Req", [(n, "string", {"number": num, "required": r}) for (n, num), r in zip(ORDER, req)] +
                   [("class", "string", {"number": 9})])
        fb.message("Rsp", [("x", "string")])
        s = fb.service("Alpha")
        fb.method(s, "Do", "Req", "Rsp")
        api = api_mod.API.build(gen.dep_files() + [fb.f], package=PKG, opts=Options.build("transport=grpc"))
        m = api.services[PKG + ".Alpha"].methods["Do"]
        got = list(m.legacy_flattened_fields)
        names = [n for n, _ in ORDER] + ["class_"]
        flags = req + [False]
        exp = [n for n, r in zip(names, flags) if r] + [n for n, r in zip(names, flags) if not r]
        return got == exp
