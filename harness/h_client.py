"""Harness over EMITTED client methods (C03, C05, C06 header assembly, C07 wiring, C08 wiring,
C18 population).  The check renders lib.apis.client_api() through /repo's current templates
into $VERIF_EMITTED; single methods of the emitted sync and asyncio client classes are lifted
out unmodified and run against stand-ins (lib/fakes.py, lib/emitted.py).

Symbolic inputs are booleans/integers: request kind, presence bits and *selectors* into small
menus of concrete values (strings are never symbolic: CrossHair's str model is unreliable).
Every function returns True iff the observed trace equals the reference computed here from the
property text, for the sync AND the asyncio method.
"""
import inspect
import os
import re
from types import SimpleNamespace as NS
from typing import Optional

from google.api_core import gapic_v1 as real_gapic_v1

from lib import apis, emitted, fakes

OUT = os.environ["VERIF_EMITTED"]
CANARY = os.environ.get("VERIF_CANARY", "")


def _mutate(text, which):
    """in-memory mutants for sensitivity canaries (never written to /repo)."""
    if CANARY == "drop-flatten-apply" and which == "client":
        return text.replace("request.book_id = book_id", "pass", 1)
    if CANARY == "async-any" and which == "async_client":
        return text.replace("has_flattened_params = len([param for param in flattened_params if param is not None]) > 0",
                            "has_flattened_params = any(flattened_params)")
    if CANARY == "wrong-rpc" and which == "client":
        return text.replace("self._transport._wrapped_methods[self._transport.delete_book]",
                            "self._transport._wrapped_methods[self._transport.get_book]", 1)
    if CANARY == "first-wins" and which == "client":
        return text.replace('header_params["routing_id"] = regex_match.group("routing_id")',
                            'header_params.setdefault("routing_id", regex_match.group("routing_id"))')
    if CANARY == "uuid-always" and which == "client":
        return text.replace("if 'request_id' not in request:", "if True:", 1)
    return text


_FDPS = [fb.f for fb in apis.client_api()]
RESERVED = None


def _rename(name):
    global RESERVED
    if RESERVED is None:
        import keyword
        from gapic.utils.reserved_names import RESERVED_NAMES
        RESERVED = set(RESERVED_NAMES) | set(keyword.kwlist)
    return name + "_" if name in RESERVED else name


EC = emitted.EmittedClient(OUT, _FDPS, "google.example.cl_v1", "library", rename=_rename, mutate=_mutate)
P = ".google.example.cl.v1."
Book, Shelf = EC.cls(P + "Book"), EC.cls(P + "Shelf")
M = {n: EC.cls(P + n) for n in ("GetBookRequest", "CreateBookRequest", "UpdateBookRequest", "DeleteBookRequest",
                               "TagBookRequest", "MoveBookRequest", "StreamBooksRequest", "UploadRequest", "ProbeRequest", "ShelveBookRequest",
                               "ImportRequest", "RetagBookRequest", "Tagged", "ListBooksRequest", "ListBooksResponse", "WriteBookRequest",
                               "WriteMetadata", "RouteRequest")}
FieldMask = EC.cls(".google.protobuf.FieldMask")
Empty = EC.cls(".google.protobuf.Empty")
GetOperationRequest = EC.cls(".google.longrunning.GetOperationRequest")

RPCS = ["get_book", "create_book", "update_book", "delete_book", "tag_book", "move_book", "classify_book", "shelve_book", "route_override", "stream_books",
        "upload", "chat", "import_", "create_channel_", "no_sig", "ping", "touch_book", "probe", "check_operation", "mask", "list_books",
        "write_book", "route_simple", "route_rename", "route_multi", "route_nested", "retag_book"]
STREAMING_REPLY = {"stream_books", "chat"}


def _md_recorder(params):
    if isinstance(params, dict):
        params = tuple(params.items())
    return ("x-goog-request-params", tuple((k, v) for k, v in params))


def _shim_gapic():
    return NS(method=real_gapic_v1.method, client_info=real_gapic_v1.client_info,
              routing_header=NS(to_grpc_metadata=_md_recorder))


class _AsyncRec(fakes.Recorder):
    def __init__(self, reply="REPLY", direct=False):
        super().__init__(reply)
        self.direct = direct

    def __call__(self, request, retry=None, timeout=None, metadata=()):
        val = fakes.Recorder.__call__(self, request, retry=retry, timeout=timeout, metadata=metadata)
        if self.direct:
            return val

        async def c():
            return val
        return c()


OPTS = dict(retry="RETRY", timeout=3.5, metadata=(("a", "b"),))

# lift every method now (at import, outside CrossHair's tracing) and give it the recording gapic_v1 shim
METHODS = ["get_book", "create_book", "update_book", "delete_book", "tag_book", "move_book", "classify_book", "shelve_book", "route_override", "stream_books",
           "upload", "chat", "import_", "create_channel", "no_sig", "ping", "touch_book", "probe", "check_operation", "mask", "list_books",
           "write_book", "route_simple", "route_rename", "route_multi", "route_nested", "retag_book"]
for _w, _c in (("client", "LibraryClient"), ("async_client", "LibraryAsyncClient")):
    for _m in METHODS:
        EC.method(_w, _c, _m).__globals__["gapic_v1"] = _shim_gapic()


def call(which, method, request, kwargs, reply="REPLY", rpc=None, opts=True):
    """-> (outcome, result, calls[(rpc, wire-request, retry, timeout, metadata)], validated, request_obj)"""
    asyn = which == "async_client"
    cls_name = "LibraryAsyncClient" if asyn else "LibraryClient"
    fn = EC.method(which, cls_name, method)
    tr = fakes.FakeTransport(RPCS)
    if asyn:
        for n in RPCS:
            rec = _AsyncRec(reply, direct=n in STREAMING_REPLY)
            tr._wrapped_methods[getattr(tr, n)] = rec
            tr.recorders[n] = rec
    else:
        for r in tr.recorders.values():
            r.reply = reply
    me = fakes.FakeClientSelf(tr)
    kw = dict(kwargs)
    if opts:
        kw.update(OPTS)
    try:
        res = fn(me, request, **kw)
        if inspect.iscoroutine(res):
            res = fakes.drive(res)
    except ValueError:
        return ("ValueError", None, tr.total_calls(), me.validated, None)
    calls = []
    objs = []
    for n, rec in tr.recorders.items():
        for c in rec.calls:
            calls.append((n, emitted.wire(c["request_obj"]) if isinstance(c["request_obj"], fakes.FakeMsg)
                          else c["request_obj"], c["retry"], c["timeout"], c["metadata"]))
            objs.append(c["request_obj"])
    return ("ok", res, calls, me.validated, objs[0] if objs else None)


def both(method, mk_request, kwargs, expect, skip=()):
    """Run the sync and the asyncio method; `expect(which)` -> (outcome, result, calls)."""
    for which in ("client", "async_client"):
        if which in skip:
            continue
        got = call(which, method, mk_request(), kwargs)
        exp = expect(which)
        if got[0] != exp[0]:
            return False
        if exp[0] == "ValueError":
            if got[2] != 0:      # nothing may have been sent
                return False
            continue
        if got[1] != exp[1] or got[2] != exp[2] or got[3] != 1:
            return False
    return True


def hdr(*pairs):
    return ("x-goog-request-params", tuple(pairs))


def md(*headers):
    return OPTS["metadata"] + tuple(headers)


def one_call(rpc, wire_req, *headers, reply="REPLY", result="REPLY"):
    return ("ok", result, [(rpc, wire_req, "RETRY", 3.5, md(*headers))])


def as_kind(kind, cls, fields):
    """request as None (only if no fields), message, or dict -- the 'equivalent message' is cls(**fields)"""
    if kind == 0:
        return None
    if kind == 1:
        return cls(**fields)
    d = {}
    for k, v in fields.items():
        d[k] = v
    return d


NAMES = ["", "shelves/s/books/b", "x y&z"]
SEL3 = (0, 1, 2)


def opt(menu, sel):
    return None if sel is None else menu[sel]


def ok_sel(sel, n):
    return sel is None or 0 <= sel < n


KIND = int(os.environ.get("VERIF_PART_KIND", "-1"))


def pk(req_kind):
    """partition of the run by request kind (one CrossHair process per kind)"""
    return KIND < 0 or req_kind == KIND


def lo(req_kind, *sels):
    """in the mixed call (request AND kwargs) only the PRESENCE of a kwarg matters for the property; its
    value is pinned to menu entry 0 -- the falsy-but-set one -- to keep the path count down"""
    return req_kind == 0 or all(s is None or s == 0 for s in sels)


# --------------------------------------------------------------------------- C05 / C03
def flat_get_book(req_kind: int, req_name: Optional[int], kw_name: Optional[int]) -> bool:
    """
    pre: pk(req_kind) and 0 <= req_kind <= 2 and ok_sel(req_name, 3) and ok_sel(kw_name, 3)
    pre: req_kind != 0 or req_name is None
    pre: lo(req_kind, kw_name)
    post: _
    """
    fields = {} if req_name is None else {"name": NAMES[req_name]}
    kwargs = {} if kw_name is None else {"name": NAMES[kw_name]}
    if req_kind != 0 and kw_name is not None:
        exp = lambda w: ("ValueError", None, None)
    else:
        sent = dict(fields)
        if kw_name is not None:
            sent["name"] = NAMES[kw_name]
        name = sent.get("name", "")
        w = {k: v for k, v in sent.items() if v}
        exp = lambda _w: one_call("get_book", w, hdr(("name", name)))
    return both("get_book", lambda: as_kind(req_kind, M["GetBookRequest"], fields), kwargs, exp)


def flat_shelve_book(req_kind: int, r_name: Optional[int], k_name: Optional[int], k_lib: Optional[int]) -> bool:
    """
    pre: pk(req_kind) and 0 <= req_kind <= 2 and ok_sel(r_name, 3) and ok_sel(k_name, 3) and ok_sel(k_lib, 2)
    pre: req_kind != 0 or r_name is None
    post: _
    """
    # the flattened scalar `library` has the name of the types module of the request
    fields = {} if r_name is None else {"name": NAMES[r_name], "library": "main"}
    kwargs = {}
    if k_name is not None:
        kwargs["name"] = NAMES[k_name]
    if k_lib is not None:
        kwargs["library"] = PARENTS[k_lib]
    if req_kind != 0 and kwargs:
        exp = lambda w: ("ValueError", None, None)
    else:
        sent = dict(fields)
        sent.update(kwargs)
        name = sent.get("name", "")
        w = {k: v for k, v in sent.items() if v}
        exp = lambda _w: one_call("shelve_book", w, hdr(("name", name)))
    return both("shelve_book", lambda: as_kind(req_kind, M["ShelveBookRequest"], fields), kwargs, exp)


BOOKS = [lambda: Book(), lambda: Book(name="n1", rating=4), lambda: Book(shelf=Shelf(name="s"))]
BOOKS_W = [{}, {"name": "n1", "rating": 4}, {"shelf": {"name": "s"}}]
IDS = ["", "id-1"]
PARENTS = ["", "shelves/s"]


def flat_create_book(req_kind: int, r_parent: Optional[int], r_book: Optional[int], r_id: Optional[int],
                     k_parent: Optional[int], k_book: Optional[int], k_id: Optional[int]) -> bool:
    """
    pre: pk(req_kind) and 0 <= req_kind <= 2 and ok_sel(r_parent, 2) and ok_sel(r_book, 3) and ok_sel(r_id, 2)
    pre: ok_sel(k_parent, 2) and ok_sel(k_book, 3) and ok_sel(k_id, 2)
    pre: req_kind != 0 or (r_parent is None and r_book is None and r_id is None)
    pre: lo(req_kind, k_parent, k_book, k_id)
    post: _
    """
    def fields():
        f = {}
        if r_parent is not None:
            f["parent"] = PARENTS[r_parent]
        if r_book is not None:
            f["book"] = BOOKS[r_book]()
        if r_id is not None:
            f["book_id"] = IDS[r_id]
        return f
    kwargs = {}
    if k_parent is not None:
        kwargs["parent"] = PARENTS[k_parent]
    if k_book is not None:
        kwargs["book"] = BOOKS[k_book]()
    if k_id is not None:
        kwargs["book_id"] = IDS[k_id]
    if req_kind != 0 and kwargs:
        exp = lambda w: ("ValueError", None, None)
    else:
        w = {}
        parent = ""
        src_p = k_parent if req_kind == 0 else r_parent
        src_b = k_book if req_kind == 0 else r_book
        src_i = k_id if req_kind == 0 else r_id
        if src_p is not None and PARENTS[src_p]:
            w["parent"] = parent = PARENTS[src_p]
        if src_b is not None:
            w["book"] = BOOKS_W[src_b]
        if src_i is not None and IDS[src_i]:
            w["book_id"] = IDS[src_i]
        # auto-populated ids (C18): request_id has presence, trace_id has not; caller sets neither here
        w["request_id"] = "FRESH-UUID-%d"
        w["trace_id"] = "FRESH-UUID-%d"
        exp = lambda _w: one_call("create_book", w, hdr(("parent", parent)))
    return both_uuid("create_book", lambda: as_kind(req_kind, M["CreateBookRequest"], fields()), kwargs, exp)


def both_uuid(method, mk_request, kwargs, expect):
    """like both(), for methods with auto-populated fields: fresh tokens are matched by pattern and
    must be pairwise different."""
    for which in ("client", "async_client"):
        got = call(which, method, mk_request(), kwargs)
        exp = expect(which)
        if got[0] != exp[0]:
            return False
        if exp[0] == "ValueError":
            if got[2] != 0:
                return False
            continue
        if got[1] != exp[1] or got[3] != 1 or len(got[2]) != 1:
            return False
        (rpc, w, r, t, m), (erpc, ew, er, et, em) = got[2][0], exp[2][0]
        if (rpc, r, t, m) != (erpc, er, et, em) or set(w) != set(ew):
            return False
        fresh = []
        for k, v in ew.items():
            if v == "FRESH-UUID-%d":
                if not (isinstance(w[k], str) and re.fullmatch(r"FRESH-UUID-\d+", w[k])):
                    return False
                fresh.append(w[k])
            elif w[k] != v:
                return False
        if len(set(fresh)) != len(fresh):
            return False
    return True


TAGS = [[], ["a"], ["a", "b"]]
LABELS = [{}, {"k": "v"}]
CLASSES = ["", "c1"]
FROMS = [0, 5]


def flat_tag_book(req_kind: int, r_tags: Optional[int], r_class: Optional[int],
                  k_name: Optional[int], k_tags: Optional[int], k_labels: Optional[int],
                  k_class: Optional[int], k_from: Optional[int]) -> bool:
    """
    pre: pk(req_kind) and 0 <= req_kind <= 2 and ok_sel(r_tags, 3) and ok_sel(r_class, 2)
    pre: ok_sel(k_name, 3) and ok_sel(k_tags, 3) and ok_sel(k_labels, 2) and ok_sel(k_class, 2) and ok_sel(k_from, 2)
    pre: req_kind != 0 or (r_tags is None and r_class is None)
    pre: lo(req_kind, k_name, k_tags, k_labels, k_class, k_from)
    post: _
    """
    def fields():
        f = {}
        if r_tags is not None:
            f["tags"] = list(TAGS[r_tags])
        if r_class is not None:
            f["class_"] = CLASSES[r_class]
        return f
    kwargs = {}
    if k_name is not None:
        kwargs["name"] = NAMES[k_name]
    if k_tags is not None:
        kwargs["tags"] = list(TAGS[k_tags])
    if k_labels is not None:
        kwargs["labels"] = dict(LABELS[k_labels])
    if k_class is not None:
        kwargs["class_"] = CLASSES[k_class]
    if k_from is not None:
        kwargs["from_"] = FROMS[k_from]
    if req_kind != 0 and kwargs:
        exp = lambda w: ("ValueError", None, None)
    else:
        w = {}
        name = ""
        if req_kind == 0:
            if k_name is not None and NAMES[k_name]:
                w["name"] = name = NAMES[k_name]
            if k_tags is not None and TAGS[k_tags]:
                w["tags"] = TAGS[k_tags]
            if k_labels is not None and LABELS[k_labels]:
                w["labels"] = LABELS[k_labels]
            if k_class is not None and CLASSES[k_class]:
                w["class"] = CLASSES[k_class]          # the wire keeps the ORIGINAL field name
            if k_from is not None and FROMS[k_from]:
                w["from"] = FROMS[k_from]
        else:
            if r_tags is not None and TAGS[r_tags]:
                w["tags"] = TAGS[r_tags]
            if r_class is not None and CLASSES[r_class]:
                w["class"] = CLASSES[r_class]
        exp = lambda _w: one_call("tag_book", w, hdr(("name", name)))
    return both("tag_book", lambda: as_kind(req_kind, M["TagBookRequest"], fields()), kwargs, exp)


def flat_move_book(req_kind: int, r_name: Optional[int], k_name: Optional[int], k_other: Optional[int]) -> bool:
    """
    pre: pk(req_kind) and 0 <= req_kind <= 2 and ok_sel(r_name, 3) and ok_sel(k_name, 3) and ok_sel(k_other, 2)
    pre: req_kind != 0 or r_name is None
    post: _
    """
    def fields():
        return {} if r_name is None else {"book": Book(name=NAMES[r_name])}
    kwargs = {}
    if k_name is not None:
        kwargs["name"] = NAMES[k_name]
    if k_other is not None:
        kwargs["other_shelf"] = PARENTS[k_other]
    if req_kind != 0 and kwargs:
        exp = lambda w: ("ValueError", None, None)
    else:
        w = {}
        name = ""
        if req_kind == 0:
            if k_name is not None:
                w["book"] = {"name": NAMES[k_name]} if NAMES[k_name] else {}
                name = NAMES[k_name]
            if k_other is not None and PARENTS[k_other]:
                w["other_shelf"] = PARENTS[k_other]
        elif r_name is not None:
            w["book"] = {"name": NAMES[r_name]} if NAMES[r_name] else {}
            name = NAMES[r_name]
        exp = lambda _w: one_call("move_book", w, hdr(("book.name", name)))
    return both("move_book", lambda: as_kind(req_kind, M["MoveBookRequest"], fields()), kwargs, exp)


def flat_retag_book(req_kind: int, r_tags: Optional[int], k_name: Optional[int], k_tags: Optional[int]) -> bool:
    """
    pre: pk(req_kind) and 0 <= req_kind <= 2 and ok_sel(r_tags, 3) and ok_sel(k_name, 3) and ok_sel(k_tags, 3)
    pre: req_kind != 0 or r_tags is None
    pre: lo(req_kind, k_name, k_tags)
    post: _
    """
    # signature "book.name,book.tags": the repeated LEAF of a dotted entry is extended in place, on request.book
    def fields():
        return {} if r_tags is None else {"book": M["Tagged"](tags=list(TAGS[r_tags]))}
    kwargs = {}
    if k_name is not None:
        kwargs["name"] = NAMES[k_name]
    if k_tags is not None:
        kwargs["tags"] = list(TAGS[k_tags])
    if req_kind != 0 and kwargs:
        exp = lambda w: ("ValueError", None, None)
    else:
        w = {}
        name = ""
        if req_kind == 0:
            if k_name is not None:
                w["book"] = {"name": NAMES[k_name]} if NAMES[k_name] else {}
                name = NAMES[k_name]
            if k_tags is not None:
                # the equivalent explicit request is RetagBookRequest(book=Tagged(tags=<value>)): `book` is PRESENT, also
                # for the empty list
                w.setdefault("book", {})
                if TAGS[k_tags]:
                    w["book"]["tags"] = TAGS[k_tags]
        elif r_tags is not None:
            w["book"] = {"tags": TAGS[r_tags]} if TAGS[r_tags] else {}
        exp = lambda _w: one_call("retag_book", w, hdr(("book.name", name)))
    # known finding F11 (known_findings.txt, key async-dotted-repeated-empty): exactly the input (asyncio client, keyword
    # arguments only, tags=[] and no name) is decided concretely by checks/_c05_known.py against the real emitted package;
    # every other input of the asyncio client and every input of the sync client is decided here
    skip = ("async_client",) if (req_kind == 0 and k_name is None and k_tags == 0) else ()
    return both("retag_book", lambda: as_kind(req_kind, M["RetagBookRequest"], fields()), kwargs, exp, skip=skip)


def flat_classify_book(req_kind: int, r_class: Optional[int], k_class: Optional[int], k_other: Optional[int]) -> bool:
    """
    pre: pk(req_kind) and 0 <= req_kind <= 2 and ok_sel(r_class, 2) and ok_sel(k_class, 2) and ok_sel(k_other, 2)
    pre: req_kind != 0 or r_class is None
    pre: lo(req_kind, k_class, k_other)
    post: _
    """
    # dotted path whose LEAF is a reserved word: signature "book.class" -> parameter class_, wire key book.class
    def fields():
        return {} if r_class is None else {"book": Book(class_=CLASSES[r_class])}
    kwargs = {}
    if k_class is not None:
        kwargs["class_"] = CLASSES[k_class]
    if k_other is not None:
        kwargs["other_shelf"] = PARENTS[k_other]
    if req_kind != 0 and kwargs:
        exp = lambda w: ("ValueError", None, None)
    else:
        w = {}
        if req_kind == 0:
            if k_class is not None:
                w["book"] = {"class": CLASSES[k_class]} if CLASSES[k_class] else {}
            if k_other is not None and PARENTS[k_other]:
                w["other_shelf"] = PARENTS[k_other]
        elif r_class is not None:
            w["book"] = {"class": CLASSES[r_class]} if CLASSES[r_class] else {}
        exp = lambda _w: one_call("classify_book", w, hdr(("book.name", "")))
    return both("classify_book", lambda: as_kind(req_kind, M["MoveBookRequest"], fields()), kwargs, exp)


MASKS = [lambda: FieldMask(), lambda: FieldMask(paths=["a", "b"])]
MASKS_W = [{}, {"paths": ["a", "b"]}]


def flat_update_book(req_kind: int, r_book: Optional[int], k_book: Optional[int], k_mask: Optional[int]) -> bool:
    """
    pre: pk(req_kind) and 0 <= req_kind <= 2 and ok_sel(r_book, 3) and ok_sel(k_book, 3) and ok_sel(k_mask, 2)
    pre: req_kind != 0 or r_book is None
    post: _
    """
    def fields():
        return {} if r_book is None else {"book": BOOKS[r_book]()}
    kwargs = {}
    if k_book is not None:
        kwargs["book"] = BOOKS[k_book]()
    if k_mask is not None:
        kwargs["update_mask"] = MASKS[k_mask]()
    if req_kind != 0 and kwargs:
        exp = lambda w: ("ValueError", None, None)
    else:
        w = {}
        src = k_book if req_kind == 0 else r_book
        if src is not None:
            w["book"] = BOOKS_W[src]
        if req_kind == 0 and k_mask is not None:
            w["update_mask"] = MASKS_W[k_mask]
        name = (w.get("book") or {}).get("name", "")
        exp = lambda _w: one_call("update_book", w, hdr(("book.name", name)))
    return both("update_book", lambda: as_kind(req_kind, M["UpdateBookRequest"], fields()), kwargs, exp)


def flat_delete_book(req_kind: int, r_name: Optional[int], r_force: bool, k_name: Optional[int]) -> bool:
    """
    pre: pk(req_kind) and 0 <= req_kind <= 2 and ok_sel(r_name, 3) and ok_sel(k_name, 3)
    pre: req_kind != 0 or (r_name is None and not r_force)
    post: _
    """
    def fields():
        f = {}
        if r_name is not None:
            f["name"] = NAMES[r_name]
        if r_force:
            f["force"] = True
        return f
    kwargs = {} if k_name is None else {"name": NAMES[k_name]}
    if req_kind != 0 and kwargs:
        exp = lambda w: ("ValueError", None, None)
    else:
        w = {}
        name = NAMES[k_name] if (req_kind == 0 and k_name is not None) else (NAMES[r_name] if r_name is not None else "")
        if name:
            w["name"] = name
        if r_force:
            w["force"] = True
        # void method: the caller gets None whatever the server replied
        exp = lambda _w: one_call("delete_book", w, hdr(("name", name)), result=None)
    return both("delete_book", lambda: as_kind(req_kind, M["DeleteBookRequest"], fields()), kwargs, exp)


def flat_check_operation(req_kind: int, r_name: Optional[int], k_name: Optional[int]) -> bool:
    """
    pre: pk(req_kind) and 0 <= req_kind <= 2 and ok_sel(r_name, 3) and ok_sel(k_name, 3)
    pre: req_kind != 0 or r_name is None
    post: _
    """
    fields = {} if r_name is None else {"name": NAMES[r_name]}
    kwargs = {} if k_name is None else {"name": NAMES[k_name]}
    if req_kind != 0 and kwargs:
        exp = lambda w: ("ValueError", None, None)
    else:
        name = NAMES[k_name] if (req_kind == 0 and k_name is not None) else (NAMES[r_name] if r_name is not None else "")
        w = {"name": name} if name else {}
        exp = lambda _w: one_call("check_operation", w, hdr(("name", name)))
    return both("check_operation", lambda: as_kind(req_kind, GetOperationRequest, fields), kwargs, exp)


PATHS = [[], ["p"], ["p", "q"]]


def flat_mask(req_kind: int, r_paths: Optional[int], k_paths: Optional[int]) -> bool:
    """
    pre: pk(req_kind) and 0 <= req_kind <= 2 and ok_sel(r_paths, 3) and ok_sel(k_paths, 3)
    pre: req_kind != 0 or r_paths is None
    post: _
    """
    fields = {} if r_paths is None else {"paths": list(PATHS[r_paths])}
    kwargs = {} if k_paths is None else {"paths": list(PATHS[k_paths])}
    if req_kind != 0 and kwargs:
        exp = lambda w: ("ValueError", None, None)
    else:
        paths = PATHS[k_paths] if (req_kind == 0 and k_paths is not None) else (PATHS[r_paths] if r_paths is not None else [])
        w = {"paths": paths} if paths else {}
        exp = lambda _w: one_call("mask", w)
    return both("mask", lambda: as_kind(req_kind, FieldMask, fields), kwargs, exp)


def flat_import(req_kind: int, r_src: Optional[int], k_src: Optional[int]) -> bool:
    """
    pre: pk(req_kind) and 0 <= req_kind <= 2 and ok_sel(r_src, 3) and ok_sel(k_src, 3)
    pre: req_kind != 0 or r_src is None
    post: _
    """
    fields = {} if r_src is None else {"source": NAMES[r_src]}
    kwargs = {} if k_src is None else {"source": NAMES[k_src]}
    if req_kind != 0 and kwargs:
        exp = lambda w: ("ValueError", None, None)
    else:
        v = NAMES[k_src] if (req_kind == 0 and k_src is not None) else (NAMES[r_src] if r_src is not None else "")
        w = {"source": v} if v else {}
        exp = lambda _w: one_call("import_", w)
    return both("import_", lambda: as_kind(req_kind, M["ImportRequest"], fields), kwargs, exp)


def flat_stream_books(req_kind: int, r_parent: Optional[int], k_parent: Optional[int]) -> bool:
    """
    pre: pk(req_kind) and 0 <= req_kind <= 2 and ok_sel(r_parent, 2) and ok_sel(k_parent, 2)
    pre: req_kind != 0 or r_parent is None
    post: _
    """
    fields = {} if r_parent is None else {"parent": PARENTS[r_parent]}
    kwargs = {} if k_parent is None else {"parent": PARENTS[k_parent]}
    if req_kind != 0 and kwargs:
        exp = lambda w: ("ValueError", None, None)
    else:
        v = PARENTS[k_parent] if (req_kind == 0 and k_parent is not None) else (PARENTS[r_parent] if r_parent is not None else "")
        w = {"parent": v} if v else {}
        exp = lambda _w: one_call("stream_books", w, hdr(("parent", v)))
    return both("stream_books", lambda: as_kind(req_kind, M["StreamBooksRequest"], fields), kwargs, exp)


# --------------------------------------------------------------------------- C03: dispatch without flattening
def disp_simple(which_rpc: int, req_kind: int, sel: Optional[int]) -> bool:
    """
    pre: 0 <= which_rpc <= 3 and 0 <= req_kind <= 2 and ok_sel(sel, 3)
    pre: req_kind != 0 or sel is None
    post: _
    """
    meth, rpc, cls, field, header = [("no_sig", "no_sig", M["GetBookRequest"], "name", "name"),
                                     ("create_channel", "create_channel_", M["ImportRequest"], "source", None),
                                     ("ping", "ping", Empty, None, None),
                                     # returns the API's OWN message named Empty: the reply must still reach the caller
                                     ("touch_book", "touch_book", M["GetBookRequest"], "name", "name")][which_rpc]
    fields = {}
    if sel is not None and field is not None:
        fields[field] = NAMES[sel]
    v = fields.get(field, "") if field else ""
    w = {field: v} if v else {}
    hs = (hdr((header, v)),) if header else ()
    return both(meth, lambda: as_kind(req_kind, cls, fields), {}, lambda _w: one_call(rpc, w, *hs))


def disp_presence_only(req_kind: int, shape: int) -> bool:
    """
    pre: 1 <= req_kind <= 2 and 0 <= shape <= 3
    post: _
    """
    # a request that is falsy for proto-plus (nothing but presence) is still the caller's request
    fields = [{"depth": 0}, {"book": {}}, {"depth": 0, "label": ""}, {"depth": 3}][shape]
    w = [{"depth": 0}, {"book": {}}, {"depth": 0}, {"depth": 3}][shape]
    return both("probe", lambda: as_kind(req_kind, M["ProbeRequest"], fields), {}, lambda _w: one_call("probe", w))


def disp_streams(which_rpc: int, n: int) -> bool:
    """
    pre: 0 <= which_rpc <= 1 and 0 <= n <= 2
    post: _
    """
    rpc = ["upload", "chat"][which_rpc]
    reqs = [M["UploadRequest"](chunk="c%d" % i) for i in range(n)]
    for which in ("client", "async_client"):
        it = iter(reqs)
        got = call(which, rpc, it, {})
        # the caller's iterator itself is handed to the wrapped method, exactly once
        if got[0] != "ok" or got[1] != "REPLY" or len(got[2]) != 1:
            return False
        c = got[2][0]
        if c[0] != rpc or c[1] is not it or c[2:] != ("RETRY", 3.5, md()):
            return False
    return True


def disp_defaults(which_rpc: int) -> bool:
    """
    pre: 0 <= which_rpc <= 3
    post: _
    """
    # without explicit options the DEFAULT sentinels reach the wrapped method (so that the
    # service-config defaults apply) and metadata is only extended by the routing header
    rpc, cls, header = [("get_book", M["GetBookRequest"], "name"), ("ping", Empty, None),
                        ("import_", M["ImportRequest"], None), ("delete_book", M["DeleteBookRequest"], "name")][which_rpc]
    for which in ("client", "async_client"):
        got = call(which, rpc, cls(), {}, opts=False)
        if got[0] != "ok" or len(got[2]) != 1:
            return False
        c = got[2][0]
        exp_md = (hdr((header, "")),) if header else ()
        if c[0] != rpc or c[2] is not real_gapic_v1.method.DEFAULT or c[3] is not real_gapic_v1.method.DEFAULT \
                or tuple(c[4]) != exp_md:
            return False
    return True


# --------------------------------------------------------------------------- C07(3) / C08 wiring
def wire_list_books(req_kind: int, r_parent: Optional[int], k_parent: Optional[int], size: int) -> bool:
    """
    pre: pk(req_kind) and 0 <= req_kind <= 2 and ok_sel(r_parent, 2) and ok_sel(k_parent, 2) and 0 <= size <= 2
    pre: req_kind != 0 or r_parent is None
    post: _
    """
    fields = {} if r_parent is None else {"parent": PARENTS[r_parent], "page_size": size}
    kwargs = {} if k_parent is None else {"parent": PARENTS[k_parent]}
    for which in ("client", "async_client"):
        first = M["ListBooksResponse"](books=[1, 2], next_page_token="")
        got = call(which, "list_books", as_kind(req_kind, M["ListBooksRequest"], fields), kwargs, reply=first)
        if req_kind != 0 and kwargs:
            if got[0] != "ValueError" or got[2] != 0:
                return False
            continue
        if got[0] != "ok" or len(got[2]) != 1:
            return False
        pager = got[1]
        want = "ListBooksAsyncPager" if which == "async_client" else "ListBooksPager"
        if type(pager).__name__ != want:
            return False
        v = PARENTS[k_parent] if (req_kind == 0 and k_parent is not None) else (PARENTS[r_parent] if r_parent is not None else "")
        # the pager got: the wrapped method, the coerced request, the first response, the caller's options
        if pager._response is not first or emitted.wire(pager._request) != emitted.wire(got[4]):
            return False
        if (pager._retry, pager._timeout, tuple(pager._metadata)) != ("RETRY", 3.5, md(hdr(("parent", v)))):
            return False
        tr_rec = pager._method
        if not isinstance(tr_rec, fakes.Recorder) or len(tr_rec.calls) != 1:
            return False
    return True


def wire_write_book(req_kind: int, r_name: Optional[int], k_name: Optional[int]) -> bool:
    """
    pre: pk(req_kind) and 0 <= req_kind <= 2 and ok_sel(r_name, 3) and ok_sel(k_name, 3)
    pre: req_kind != 0 or r_name is None
    post: _
    """
    fields = {} if r_name is None else {"name": NAMES[r_name]}
    kwargs = {} if k_name is None else {"name": NAMES[k_name]}
    for which in ("client", "async_client"):
        got = call(which, "write_book", as_kind(req_kind, M["WriteBookRequest"], fields), kwargs, reply="RAW-OP")
        if req_kind != 0 and kwargs:
            if got[0] != "ValueError" or got[2] != 0:
                return False
            continue
        if got[0] != "ok" or len(got[2]) != 1:
            return False
        kind = "operation_async" if which == "async_client" else "operation"
        if got[1] != ("FUTURE", kind, "RAW-OP", "OPERATIONS_CLIENT", Book, M["WriteMetadata"]):
            return False
    return True


# --------------------------------------------------------------------------- C06: explicit routing assembly
TABLES = ["", "projects/p", "projects/p/instances/i", "projects/p/instances/i/tables/t", "regions/r/zones/z",
          "regions/r/zones/z/x/y", "projects//instances/i", "a b&c"]
PROFILES = ["", "prof", "a/b", "x y"]
BNAMES = ["", "shelves/s/books/b", "shelves/s/books/b/c", "books/b"]


def ref_match(template_segments, value):
    """AIP-4222 reference, independent of the emitted regex: returns the captured text or None.
    template_segments: list of (kind, literal, captured) with kind in lit|star|dstar."""
    parts = value.split("/")

    def go(i, j, cap):
        if i == len(template_segments):
            return cap if j == len(parts) else None
        kind, lit, captured = template_segments[i]
        if kind == "lit":
            if j < len(parts) and parts[j] == lit:
                return go(i + 1, j + 1, cap + [parts[j]] if captured else cap)
            return None
        if kind == "star":
            if j < len(parts) and parts[j] != "":
                return go(i + 1, j + 1, cap + [parts[j]] if captured else cap)
            return None
        # dstar: only used in last position here; "/**" also matches the empty tail
        rest = parts[j:]
        return cap + rest if captured else cap
    r = go(0, 0, [])
    return None if r is None else "/".join(r)


def route_simple(req_kind: int, prof: Optional[int]) -> bool:
    """
    pre: pk(req_kind) and 1 <= req_kind <= 2 and ok_sel(prof, 4)
    post: _
    """
    fields = {} if prof is None else {"app_profile_id": PROFILES[prof]}
    v = fields.get("app_profile_id", "")
    hs = (hdr(("app_profile_id", v)),) if v else ()
    w = {"app_profile_id": v} if v else {}
    return both("route_simple", lambda: as_kind(req_kind, M["RouteRequest"], fields), {},
                lambda _w: one_call("route_simple", w, *hs))


def route_rename(req_kind: int, prof: Optional[int]) -> bool:
    """
    pre: pk(req_kind) and 1 <= req_kind <= 2 and ok_sel(prof, 4)
    post: _
    """
    fields = {} if prof is None else {"app_profile_id": PROFILES[prof]}
    v = fields.get("app_profile_id", "")
    hs = (hdr(("routing_id", v)),) if v else ()
    w = {"app_profile_id": v} if v else {}
    return both("route_rename", lambda: as_kind(req_kind, M["RouteRequest"], fields), {},
                lambda _w: one_call("route_rename", w, *hs))


def route_override(req_kind: int, table: Optional[int], prof: Optional[int]) -> bool:
    """
    pre: pk(req_kind) and 1 <= req_kind <= 2 and ok_sel(table, 8) and ok_sel(prof, 4)
    post: _
    """
    # two parameters reading DIFFERENT fields produce the same key: the later one (app_profile_id) wins when it matches
    fields = {}
    if table is not None:
        fields["table_name"] = TABLES[table]
    if prof is not None:
        fields["app_profile_id"] = PROFILES[prof]
    t, p = fields.get("table_name", ""), fields.get("app_profile_id", "")
    val = None
    c = ref_match([("lit", "projects", True), ("star", None, True), ("dstar", None, False)], t)
    if c:
        val = c
    if p:
        val = p
    hs = (hdr(("routing_id", val)),) if val else ()
    w = {k: v for k, v in (("table_name", t), ("app_profile_id", p)) if v}
    return both("route_override", lambda: as_kind(req_kind, M["RouteRequest"], fields), {},
                lambda _w: one_call("route_override", w, *hs))


def route_multi(req_kind: int, table: Optional[int], prof: Optional[int]) -> bool:
    """
    pre: pk(req_kind) and 1 <= req_kind <= 2 and ok_sel(table, 8) and ok_sel(prof, 4)
    post: _
    """
    fields = {}
    if table is not None:
        fields["table_name"] = TABLES[table]
    if prof is not None:
        fields["app_profile_id"] = PROFILES[prof]
    t, p = fields.get("table_name", ""), fields.get("app_profile_id", "")
    params = {}
    # {routing_id=projects/*}/**   then   {routing_id=projects/*/instances/*}/**   (later wins)
    for tmpl in ([("lit", "projects", True), ("star", None, True), ("dstar", None, False)],
                 [("lit", "projects", True), ("star", None, True), ("lit", "instances", True), ("star", None, True),
                  ("dstar", None, False)]):
        c = ref_match(tmpl, t)
        if c:
            params["routing_id"] = c
    c = ref_match([("star", None, True)], p)
    if c:
        params["profile"] = c
    hs = (hdr(*params.items()),) if params else ()
    w = {k: v for k, v in (("table_name", t), ("app_profile_id", p)) if v}
    return both("route_multi", lambda: as_kind(req_kind, M["RouteRequest"], fields), {},
                lambda _w: one_call("route_multi", w, *hs))


def route_nested(req_kind: int, table: Optional[int], bname: Optional[int], sname: Optional[int]) -> bool:
    """
    pre: pk(req_kind) and 1 <= req_kind <= 2 and ok_sel(table, 8) and ok_sel(bname, 4) and ok_sel(sname, 4)
    post: _
    """
    fields = {}
    if table is not None:
        fields["table_name"] = TABLES[table]
    if bname is not None or sname is not None:
        b = {}
        if bname is not None:
            b["name"] = BNAMES[bname]
        if sname is not None:
            b["shelf"] = Shelf(name=PROFILES[sname]) if req_kind == 1 else {"name": PROFILES[sname]}
        fields["book"] = Book(**b) if req_kind == 1 else b
    t = fields.get("table_name", "")
    bn = BNAMES[bname] if bname is not None else ""
    sn = PROFILES[sname] if sname is not None else ""
    params = {}
    c = ref_match([("lit", "shelves", False), ("star", None, False), ("lit", "books", True), ("star", None, True)], bn)
    if c:
        params["book_id"] = c
    c = ref_match([("lit", "regions", True), ("star", None, True), ("lit", "zones", True), ("star", None, True),
                   ("dstar", None, True)], t)
    if c:
        params["table_name"] = c
    if sn:
        params["book_id"] = sn      # {book_id=**} on book.shelf.name: later parameter with the same key wins
    hs = (hdr(*params.items()),) if params else ()
    w = {}
    if t:
        w["table_name"] = t
    if "book" in fields:
        wb = {}
        if bn:
            wb["name"] = bn
        if sname is not None:
            wb["shelf"] = {"name": sn} if sn else {}
        w["book"] = wb
    return both("route_nested", lambda: as_kind(req_kind, M["RouteRequest"], fields), {},
                lambda _w: one_call("route_nested", w, *hs))


# --------------------------------------------------------------------------- C18: population
RIDS = ["", "caller-token"]


def uuid_create_book(req_kind: int, rid: Optional[int], tid: Optional[int]) -> bool:
    """
    pre: pk(req_kind) and 1 <= req_kind <= 2 and ok_sel(rid, 2) and ok_sel(tid, 2)
    post: _
    """
    fields = {"parent": "shelves/s"}
    if rid is not None:
        fields["request_id"] = RIDS[rid]
    if tid is not None:
        fields["trace_id"] = RIDS[tid]
    w = {"parent": "shelves/s"}
    # request_id is `optional`: populated iff UNSET (an explicit empty string is the caller's value)
    w["request_id"] = "FRESH-UUID-%d" if rid is None else RIDS[rid]
    # trace_id has no presence: populated iff empty
    w["trace_id"] = RIDS[tid] if (tid is not None and RIDS[tid]) else "FRESH-UUID-%d"
    return both_uuid("create_book", lambda: as_kind(req_kind, M["CreateBookRequest"], fields), {},
                     lambda _w: one_call("create_book", w, hdr(("parent", "shelves/s"))))


def uuid_two_calls(rid: Optional[int]) -> bool:
    """
    pre: ok_sel(rid, 2)
    post: _
    """
    # two calls get two different fresh values; a caller-provided value is never altered
    seen = []
    for which in ("client", "async_client"):
        for _ in range(2):
            f = {} if rid is None else {"request_id": RIDS[rid]}
            got = call(which, "create_book", M["CreateBookRequest"](**f), {})
            if got[0] != "ok" or len(got[2]) != 1:
                return False
            seen.append(got[2][0][1].get("request_id"))
    if rid is not None:
        return all(s == RIDS[rid] for s in seen)
    return len(set(seen)) == len(seen) and all(isinstance(s, str) and s.startswith("FRESH-UUID-") for s in seen)


def uuid_absent_elsewhere(which_rpc: int) -> bool:
    """
    pre: 0 <= which_rpc <= 1
    post: _
    """
    # methods without the setting never consume a uuid
    rpc, cls = [("get_book", M["GetBookRequest"]), ("import_", M["ImportRequest"])][which_rpc]
    before = EC.uuid.n
    for which in ("client", "async_client"):
        call(which, rpc, cls(), {})
    return EC.uuid.n == before


# --------------------------------------------------------------------------- reachability twins
def twin_flat(req_kind: int, r_parent: Optional[int], k_id: Optional[int]) -> bool:
    """
    pre: pk(req_kind) and 0 <= req_kind <= 2 and ok_sel(r_parent, 2) and ok_sel(k_id, 2)
    pre: req_kind != 0 or r_parent is None
    post: _
    """
    ok = flat_create_book(req_kind, r_parent, None, None, None, None, k_id)
    return not (ok and req_kind == 0 and k_id == 1)


def twin_route(table: Optional[int]) -> bool:
    """
    pre: ok_sel(table, 8)
    post: _
    """
    return not (route_multi(1, table, None) and table == 3)


C05_FUNCS = ["flat_get_book", "flat_create_book", "flat_tag_book", "flat_move_book", "flat_retag_book", "flat_classify_book", "flat_shelve_book", "flat_update_book",
             "flat_delete_book", "flat_check_operation", "flat_mask", "flat_import", "flat_stream_books"]
C03_FUNCS = ["disp_simple", "disp_presence_only", "disp_streams", "disp_defaults", "flat_get_book", "flat_delete_book",
             "flat_stream_books", "flat_import", "flat_check_operation", "wire_list_books", "wire_write_book"]
C06_FUNCS = ["route_simple", "route_rename", "route_override", "route_multi", "route_nested"]
C18_FUNCS = ["uuid_create_book", "uuid_two_calls", "uuid_absent_elsewhere"]

EXPECTED_SIGNATURES = {
    "get_book": ["name"], "create_book": ["parent", "book", "book_id"], "update_book": ["book", "update_mask"],
    "delete_book": ["name"], "tag_book": ["name", "tags", "labels", "class_", "from_"],
    "move_book": ["name", "other_shelf"], "retag_book": ["name", "tags"], "classify_book": ["class_", "other_shelf"], "shelve_book": ["name", "library"],
    "stream_books": ["parent"], "import_": ["source"],
    "check_operation": ["name"], "mask": ["paths"], "list_books": ["parent"], "write_book": ["name"],
    "no_sig": [], "ping": [], "create_channel": [], "route_simple": [], "route_multi": [],
}
