"""C11 harness: Options.build ignores unknown options.  Option strings are assembled from a menu of tokens chosen by
symbolic selectors (known flags, unknown flags, repeated keys); selectors are concretised by comparison, the real
Options.build then runs untraced."""
import contextlib
import os
import warnings

from gapic.utils import Options
from gapic.utils import options as options_mod

try:
    from crosshair.tracers import NoTracing, is_tracing
except Exception:  # pragma: no cover
    NoTracing = None

CANARY = os.environ.get("VERIF_CANARY", "")
PART = int(os.environ.get("VERIF_PART", "0"))
KNOWN = ["transport=rest", "transport=grpc+rest", "rest-numeric-enums", "metadata", "python-gapic-name=thing",
         "python-gapic-namespace=a.b", "autogen-snippets=false", "warehouse-package-name=wh", "add-iam-methods",
         "python-gapic-name=other", "autogen-snippets"]
UNKNOWN = ["bogus", "bogus=1", "python-gapic-zzz=3", "go-gapic-package=x", "name=leak", " spaced-unknown = 1",
           "python-gapic-templates-x=1", "transports=rest", "java-opt=false"]
BARE = {"rest-numeric-enums", "metadata", "add-iam-methods", "autogen-snippets"}


def untraced():
    if NoTracing is not None and is_tracing():
        return NoTracing()
    return contextlib.nullcontext()


def conc(x, lo, hi):
    for v in range(lo, hi + 1):
        if x == v:
            return v
    raise AssertionError("selector out of range")


def _build(s):
    with warnings.catch_warnings():
        warnings.simplefilter("ignore")
        if CANARY == "unknown-sets-name":
            # in-memory mutant: bare `name=` is honoured
            s = s.replace("name=leak", "python-gapic-name=leak") if s.startswith("name=leak") or ",name=leak" in s else s
        return Options.build(s)


def unknown_ignored(k0: int, k1: int, u0: int, u1: int, order: int) -> bool:
    """
    pre: -1 <= k0 <= 10 and -1 <= k1 <= 2 and -1 <= u0 <= 8 and -1 <= u1 <= 1 and order == PART
    post: _
    """
    k0, k1, u0, u1, order = conc(k0, -1, 10), conc(k1, -1, 2), conc(u0, -1, 8), conc(u1, -1, 1), conc(order, 0, 2)
    with untraced():
        known = [KNOWN[i] for i in (k0, k1) if i >= 0]
        unknown = [UNKNOWN[i] for i in (u0, u1) if i >= 0]
        if order == 0:
            toks = known + unknown
        elif order == 1:
            toks = unknown + known
        else:
            toks = [t for pair in zip(unknown + [None] * 2, known + [None] * 2) for t in pair if t]
        a = _build(",".join(toks))
        b = _build(",".join(known))
        if a != b:
            return False
        # a flag given without a value means flag=true wherever it stands in the string (no value leaks from a neighbour)
        c = _build(",".join(t + "=true" if t in BARE else t for t in toks))
        if a != c:
            return False
        # documented defaults
        if not known and (a.transport != ["grpc"] or a.name != "" or a.namespace != ()):
            return False
        return True
