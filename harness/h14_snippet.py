"""C14 harness: the real Snippet._parse_snippet_segments / full_snippet of /repo on a sample whose marker lines sit at
symbolic positions (concretised by comparison, then run untraced)."""
import contextlib
import os

from gapic.samplegen_utils import snippet_index, snippet_metadata_pb2

try:
    from crosshair.tracers import NoTracing, is_tracing
except Exception:  # pragma: no cover
    NoTracing = None

N = int(os.environ.get("VERIF_LINES", "12"))
CANARY = os.environ.get("VERIF_CANARY", "")
MARK = {"start": "# [START lib_v1_generated_Library_Get_sync]\n", "client": "    # Create a client\n",
        "rinit": "    # Initialize request argument(s)\n", "rexec": "    # Make the request\n",
        "resp": "    # Handle the response\n", "end": "# [END lib_v1_generated_Library_Get_sync]\n"}

if CANARY == "end-inclusive":
    _orig = snippet_index.Snippet._parse_snippet_segments

    def _mut(self):
        _orig(self)
        self._full_snippet.end += 1
    snippet_index.Snippet._parse_snippet_segments = _mut


def untraced():
    if NoTracing is not None and is_tracing():
        return NoTracing()
    return contextlib.nullcontext()


def conc(x, lo, hi):
    for v in range(lo, hi + 1):
        if x == v:
            return v
    raise AssertionError("selector out of range")


def segments(s: int, c: int, ri: int, re_: int, rh: int, e: int, trailing_nl: bool) -> bool:
    """
    pre: 0 <= s < c < ri < re_ < rh < e < N
    post: _
    """
    s, c, ri, re_, rh, e = (conc(s, 0, N - 1), conc(c, 0, N - 1), conc(ri, 0, N - 1), conc(re_, 0, N - 1),
                            conc(rh, 0, N - 1), conc(e, 0, N - 1))
    trailing_nl = bool(trailing_nl)
    with untraced():
        lines = [f"    x{i} = {i}  # filler\n" for i in range(N)]
        for pos, k in ((s, "start"), (c, "client"), (ri, "rinit"), (re_, "rexec"), (rh, "resp"), (e, "end")):
            lines[pos] = MARK[k]
        text = "".join(lines)
        if not trailing_nl:
            text = text[:-1]
        md = snippet_metadata_pb2.Snippet()
        sn = snippet_index.Snippet(text, md)
        seg = {x.type: (x.start, x.end) for x in md.segments}
        T = snippet_metadata_pb2.Snippet.Segment.SegmentType
        exp = {T.FULL: (s + 2, e), T.SHORT: (s + 2, e), T.CLIENT_INITIALIZATION: (c + 1, ri),
               T.REQUEST_INITIALIZATION: (ri + 1, re_), T.REQUEST_EXECUTION: (re_ + 1, rh),
               T.RESPONSE_HANDLING: (rh + 1, N)}
        if seg != exp or len(md.segments) != 6:
            return False
        # the docstring snippet is exactly the text between the START and END tags
        want = "".join(text.splitlines(keepends=True)[s + 1:e])
        return sn.full_snippet == want
