"""C12 harness: proto file-name disambiguation (closure lifted from API.build) and module alias <-> import
agreement (real metadata.Address).  Inputs are selectors into stated menus (strings are never symbolic for
CrossHair); selectors are concretised by comparison, the real code then runs untraced."""
import ast
import contextlib
import keyword
import os
from typing import Container

from gapic.schema import metadata, naming

try:
    from crosshair.tracers import NoTracing, is_tracing
except Exception:  # pragma: no cover
    NoTracing = None

REPO = os.environ.get("VERIF_REPO", "/repo")
CANARY = os.environ.get("VERIF_CANARY", "")


def untraced():
    if NoTracing is not None and is_tracing():
        return NoTracing()
    return contextlib.nullcontext()


def conc(x, lo, hi):
    for v in range(lo, hi + 1):
        if x == v:
            return v
    raise AssertionError("selector out of range")


def _lift():
    """disambiguate_keyword_sanitize_fname and the invalid_module_names set are locals of API.build:
    lift both statements from the current source."""
    src = open(os.path.join(REPO, "gapic/schema/api.py")).read()
    tree = ast.parse(src)
    build = None
    for cls in tree.body:
        if isinstance(cls, ast.ClassDef) and cls.name == "API":
            for fn in cls.body:
                if isinstance(fn, ast.FunctionDef) and fn.name == "build":
                    build = fn
    stmts = []
    for st in build.body:
        if isinstance(st, ast.Assign) and any(isinstance(t, ast.Name) and t.id == "invalid_module_names" for t in st.targets):
            stmts.append(st)
        if isinstance(st, ast.FunctionDef) and st.name == "disambiguate_keyword_sanitize_fname":
            st.returns = None
            for a in st.args.args:
                a.annotation = None
            stmts.append(st)
    if len(stmts) != 2:
        raise RuntimeError("could not lift disambiguate_keyword_sanitize_fname from API.build")
    mod = ast.Module(body=stmts, type_ignores=[])
    ast.fix_missing_locations(mod)
    ns = {"keyword": keyword, "os": os, "Container": Container}
    text = ast.unparse(mod)
    if CANARY == "no-control-words":
        text = text.replace("'metadata'", "'metadata_x'")
    exec(compile(text, "lifted:api.py:API.build", "exec"), ns)
    return ns["disambiguate_keyword_sanitize_fname"], ns["invalid_module_names"], text


FNAME, INVALID, LIFTED_SRC = _lift()

FILES = ["google/x/v1/lib.proto", "google/x/v1/import.proto", "google/x/v1/class.proto", "google/x/v1/metadata.proto",
         "google/x/v1/retry.proto", "google/x/v1/timeout.proto", "google/x/v1/request.proto", "google/x/v1/a.b.proto",
         "google/x/v1/import.v2.proto", "lambda.proto", "google/x/v1/none.proto", "google/x/v1/None.proto"]
# per the property: Python keywords and the client control parameters
FORBIDDEN = set(keyword.kwlist) | {"metadata", "retry", "timeout", "request"}


def fname(sel: int, v0: bool, v1: bool, v2: bool, v3: bool) -> bool:
    """
    pre: 0 <= sel <= 11
    post: _
    """
    sel = conc(sel, 0, len(FILES) - 1)
    v0, v1, v2, v3 = bool(v0), bool(v1), bool(v2), bool(v3)
    with untraced():
        full = FILES[sel]
        path, base = os.path.split(full)
        stem = base[:-len(".proto")].replace(".", "_")
        cands = [os.path.join(path, stem + "_" * k + ".proto") for k in range(4)]
        visited = {c: None for c, on in zip(cands, (v0, v1, v2, v3)) if on}
        got = FNAME(full, visited)
        gpath, gbase = os.path.split(got)
        gstem, gext = os.path.splitext(gbase)
        # result is new, importable as a module, differs from the input only by '.'->'_' and trailing '_'
        if got in visited or gpath != path or gext != ".proto":
            return False
        if "." in gstem or gstem in FORBIDDEN:
            return False
        if gstem.rstrip("_") != stem.rstrip("_") or len(gstem) < len(stem):
            return False
        # minimal: no shorter admissible candidate was skipped
        for c in cands:
            cstem = os.path.splitext(os.path.basename(c))[0]
            if c == got:
                break
            if c not in visited and cstem not in FORBIDDEN:
                return False
        return True


NAMING = naming.NewNaming(name="Lib", namespace=("Google", "Cloud"), version="v1", proto_package="google.cloud.lib.v1",
                          proto_plus_deps=("google.cloud.dep.v1",))
MODULES = ["library", "common", "import", "type", "class", "any"]
PACKAGES = [("google", "cloud", "lib", "v1"), ("google", "cloud", "dep", "v1"), ("google", "type"),
            ("google", "cloud", "lib", "v1", "sub_pkg"), ("google", "protobuf")]


def alias(mod: int, pkg: int, collide: bool, nested: bool) -> bool:
    """
    pre: 0 <= mod <= 5 and 0 <= pkg <= 4
    post: _
    """
    mod, pkg = conc(mod, 0, 5), conc(pkg, 0, 4)
    collide, nested = bool(collide), bool(nested)
    with untraced():
        m = MODULES[mod]
        addr = metadata.Address(name="Thing", module=m, package=PACKAGES[pkg], api_naming=NAMING,
                                parent=("Outer",) if nested else (),
                                collisions=frozenset({m, "other"}) if collide else frozenset({"other"}))
        ref = str(addr)
        line = str(addr.python_import)
        # the name the import statement binds
        body = line.split("#")[0].strip()
        if " as " in body:
            bound = body.rsplit(" as ", 1)[1].strip()
        else:
            bound = body.rsplit("import ", 1)[1].strip()
        head = ref.split(".")[0]
        if head != bound:
            return False
        if not bound.isidentifier() or keyword.iskeyword(bound):
            return False
        # reserved / colliding proto-plus modules must be aliased, others not
        from gapic.utils.reserved_names import RESERVED_NAMES
        proto_plus = pkg in (0, 1, 3)
        if proto_plus:
            must = collide or m in RESERVED_NAMES
            if must != (bound != m):
                return False
        else:
            if bound != m + "_pb2":
                return False
        return ref.split(".")[1:] == (["Outer"] if nested else []) + ["Thing"]


def twin(sel: int, v0: bool) -> bool:
    """
    pre: 0 <= sel <= 11
    post: _
    """
    ok = fname(sel, v0, False, False, False)
    return not (ok and sel == 1 and v0)


# ---------------------------------------------------------------------------- module-name collisions of one proto file
def _names_api(m1a, m1b, m2a, m2b, one_msg):
    """library.proto with messages M1, M2 whose fields may use `Thing` from the API's own common.proto and/or `Thing` from
    google/shared/v1/common.proto (another package, same module name `common`)."""
    from gapic.schema import api as api_mod
    from gapic.utils import Options
    from lib import gen
    pkg = "google.example.nm.v1"
    shared = gen.FileBuilder("google/shared/v1/common.proto", "google.shared.v1")
    shared.message("Thing", [("x", "string")])
    own = gen.FileBuilder("google/example/nm/v1/common.proto", pkg)
    own.message("Thing", [("y", "string")])
    lib = gen.FileBuilder("google/example/nm/v1/library.proto", pkg, deps=[shared.f.name, own.f.name])
    f1 = [("n", "string")] + ([("a", "msg:Thing")] if m1a else []) + ([("b", "msg:.google.shared.v1.Thing")] if m1b else [])
    f2 = [("n", "string")] + ([("a", "msg:Thing")] if m2a else []) + ([("b", "msg:.google.shared.v1.Thing")] if m2b else [])
    if one_msg:
        lib.message("M1", f1 + [(n + "2", t) for n, t in f2[1:]])
    else:
        lib.message("M1", f1)
        lib.message("M2", f2)
    s = lib.service("Svc")
    lib.method(s, "Get", "M1", "M1", http=("get", "/v1/x"))
    api = api_mod.API.build(gen.dep_files() + [shared.f, own.f, lib.f], package=pkg, opts=Options.build("transport=grpc"))
    return api.protos["google/example/nm/v1/library.proto"]


def proto_names(m1a: bool, m1b: bool, m2a: bool, m2b: bool, one_msg: bool) -> bool:
    """
    post: _
    """
    # `common` is a collision of library.proto iff the FILE (any of its messages) uses both same-named modules:
    # the import block of types/library.py is per file, not per message
    m1a, m1b, m2a, m2b, one_msg = bool(m1a), bool(m1b), bool(m2a), bool(m2b), bool(one_msg)
    with untraced():
        proto = _names_api(m1a, m1b, m2a, m2b, one_msg)
        want = (m1a or m2a) and (m1b or m2b)
        return ("common" in proto.names) == want
