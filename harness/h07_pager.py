"""C07 harness: the EMITTED pagers module (rendered from /repo's templates by the check into
$VERIF_EMITTED) is loaded unmodified; only its `types` dependency is replaced by stand-ins.
Symbolic: the server's page history, parent, page_size."""
import importlib.util
import os
from typing import Dict, List, Tuple

from lib import fakes

OUT = os.environ["VERIF_EMITTED"]
PKG = "google.example.pg_v1"

Book = fakes.make_msg("Book", {"name": "str", "author": "str"})
ListBooksRequest = fakes.make_msg("ListBooksRequest", {"parent": "str", "page_size": "int", "page_token": "str", "filter": "str"})
ListBooksResponse = fakes.make_msg("ListBooksResponse", {"books": "rep", "next_page_token": "str", "total_size": "int"})
ListNamesRequest = fakes.make_msg("ListNamesRequest", {"parent": "str", "max_results": "int", "page_token": "str"})
ListNamesResponse = fakes.make_msg("ListNamesResponse", {"names": "rep", "next_page_token": "str"})
ListEntriesRequest = fakes.make_msg("ListEntriesRequest", {"parent": "str", "page_size": "int", "page_token": "str"})
ListEntriesResponse = fakes.make_msg("ListEntriesResponse", {"entries": "map", "next_page_token": "str", "total_size": "int"})
ListTwoRequest = fakes.make_msg("ListTwoRequest", {"parent": "str", "page_size": "int", "page_token": "str"})
ListTwoResponse = fakes.make_msg("ListTwoResponse", {"kind": "str", "firsts": "rep", "next_page_token": "str", "seconds": "rep"})
fakes.install_types_module(PKG + ".types.library", [Book, ListBooksRequest, ListBooksResponse, ListNamesRequest,
                                                    ListNamesResponse, ListEntriesRequest, ListEntriesResponse,
                                                    ListTwoRequest, ListTwoResponse])
_spec = importlib.util.spec_from_file_location("emitted_pagers", os.path.join(OUT, "google/example/pg_v1/services/library/pagers.py"))
pagers = importlib.util.module_from_spec(_spec)
_spec.loader.exec_module(pagers)

OPTS = dict(retry="RETRY", timeout=7.5, metadata=(("k", "v"),))


def reference(hist, empty=()):
    """items / tokens the property prescribes: pages up to and including the first empty token."""
    exp_items, exp_tokens, last = [], [], 0
    i = 0
    while True:
        items, tok = hist[i] if i < len(hist) else (empty, "")
        exp_items.append(items)
        last = i
        if not tok:
            break
        exp_tokens.append(tok)
        i += 1
    return exp_items, exp_tokens, last


class Server:
    def __init__(self, hist, resp_cls, field, asyn=False):
        self.hist, self.resp_cls, self.field, self.asyn = hist, resp_cls, field, asyn
        self.seen = []
        self.empty = {} if resp_cls._kinds[field] == "map" else []

    def page(self, i):
        items, tok = self.hist[i] if i < len(self.hist) else (self.empty, "")
        kw = {self.field: items, "next_page_token": tok}
        if "total_size" in self.resp_cls._kinds:
            kw["total_size"] = 100 + i
        return self.resp_cls(**kw)

    def __call__(self, request, retry=None, timeout=None, metadata=()):
        self.seen.append((request.page_token, request.parent, retry, timeout, metadata,
                          {k: v for k, v in request.to_dict().items() if k not in ("page_token",)}))
        resp = self.page(len(self.seen))
        if self.asyn:
            async def c():
                return resp
            return c()
        return resp


def _check(pager_cls, req, resp_cls, field, hist, asyn, as_items=None):
    srv = Server(hist, resp_cls, field, asyn)
    other = {k: v for k, v in req.to_dict().items() if k != "page_token"}
    pager = pager_cls(srv, req, srv.page(0), **OPTS)
    exp_items, exp_tokens, last = reference(hist, srv.empty)
    flat = []
    for it in exp_items:
        flat.extend(as_items(it) if as_items else it)
    got = fakes.drain_async_iter(pager) if asyn else list(pager)
    if got != flat:
        return False
    if [s[0] for s in srv.seen] != exp_tokens:
        return False
    for s in srv.seen:
        if s[1] != req.parent or s[2] != "RETRY" or s[3] != 7.5 or s[4] != (("k", "v"),) or s[5] != other:
            return False
    # the pager exposes the most recent page
    if pager.next_page_token != "":
        return False
    if "total_size" in resp_cls._kinds and pager.total_size != 100 + last:
        return False
    # the caller's request object is not modified
    return True


def _pages_view(pager_cls, req, resp_cls, field, hist, asyn):
    """walk `.pages` and require that, after each page is produced, attribute access on the pager
    reads that page."""
    srv = Server(hist, resp_cls, field, asyn)
    pager = pager_cls(srv, req, srv.page(0), **OPTS)
    pages = fakes.drain_async_iter(pager.pages) if asyn else None
    if asyn:
        # after exhaustion the most recent page is the last one produced
        return pager.total_size == pages[-1].total_size and len(pages) == len(reference(hist)[0])
    n = 0
    for page in pager.pages:
        if pager.total_size != page.total_size or pager.next_page_token != page.next_page_token:
            return False
        n += 1
    return n == len(reference(hist)[0])


def _bounded(pages, np, ni):
    return 1 <= len(pages) <= np and all(len(p[0]) <= ni and len(p[1]) <= 2 for p in pages)


def sync_books(pages: List[Tuple[List[int], str]], parent: str, page_size: int, filt: str) -> bool:
    """
    pre: _bounded(pages, NP, NI)
    post: _
    """
    req = ListBooksRequest(parent=parent, page_size=page_size, filter=filt)
    return _check(pagers.ListBooksPager, req, ListBooksResponse, "books", pages, False)


def async_books(pages: List[Tuple[List[int], str]], parent: str, page_size: int, filt: str) -> bool:
    """
    pre: _bounded(pages, NP, NI)
    post: _
    """
    req = ListBooksRequest(parent=parent, page_size=page_size, filter=filt)
    return _check(pagers.ListBooksAsyncPager, req, ListBooksResponse, "books", pages, True)


def sync_books_pages(pages: List[Tuple[List[int], str]], parent: str) -> bool:
    """
    pre: _bounded(pages, NP, NI)
    post: _
    """
    return _pages_view(pagers.ListBooksPager, ListBooksRequest(parent=parent), ListBooksResponse, "books", pages, False)


def async_books_pages(pages: List[Tuple[List[int], str]], parent: str) -> bool:
    """
    pre: _bounded(pages, NP, NI)
    post: _
    """
    return _pages_view(pagers.ListBooksAsyncPager, ListBooksRequest(parent=parent), ListBooksResponse, "books", pages, True)


def sync_names(pages: List[Tuple[List[int], str]], parent: str, max_results: int) -> bool:
    """
    pre: _bounded(pages, NP, NI)
    post: _
    """
    req = ListNamesRequest(parent=parent, max_results=max_results)
    return _check(pagers.ListNamesPager, req, ListNamesResponse, "names", pages, False)


def async_names(pages: List[Tuple[List[int], str]], parent: str, max_results: int) -> bool:
    """
    pre: _bounded(pages, NP, NI)
    post: _
    """
    req = ListNamesRequest(parent=parent, max_results=max_results)
    return _check(pagers.ListNamesAsyncPager, req, ListNamesResponse, "names", pages, True)


def _as_map(hist):
    return [({f"k{i}": v for i, v in enumerate(items)}, tok) for items, tok in hist]


def sync_entries(pages: List[Tuple[List[int], str]], parent: str, page_size: int) -> bool:
    """
    pre: _bounded(pages, NP, NI)
    post: _
    """
    req = ListEntriesRequest(parent=parent, page_size=page_size)
    return _check(pagers.ListEntriesPager, req, ListEntriesResponse, "entries", _as_map(pages), False,
                  as_items=lambda d: list(d.items()))


def async_entries(pages: List[Tuple[List[int], str]], parent: str, page_size: int) -> bool:
    """
    pre: _bounded(pages, NP, NI)
    post: _
    """
    req = ListEntriesRequest(parent=parent, page_size=page_size)
    return _check(pagers.ListEntriesAsyncPager, req, ListEntriesResponse, "entries", _as_map(pages), True,
                  as_items=lambda d: list(d.items()))


def sync_two(pages: List[Tuple[List[int], str]], parent: str) -> bool:
    """
    pre: _bounded(pages, NP, NI)
    post: _
    """
    return _check(pagers.ListTwoPager, ListTwoRequest(parent=parent), ListTwoResponse, "firsts", pages, False)


def async_two(pages: List[Tuple[List[int], str]], parent: str) -> bool:
    """
    pre: _bounded(pages, NP, NI)
    post: _
    """
    return _check(pagers.ListTwoAsyncPager, ListTwoRequest(parent=parent), ListTwoResponse, "firsts", pages, True)


def twin_reach(pages: List[Tuple[List[int], str]], parent: str) -> bool:
    """
    pre: _bounded(pages, NP, NI)
    post: _
    """
    # reachability twin: same path as sync_books but the assertion is False on a multi-page history
    ok = _check(pagers.ListBooksPager, ListBooksRequest(parent=parent), ListBooksResponse, "books", pages, False)
    return not (ok and len(pages) >= 2 and pages[0][1] != "" and len(pages[1][0]) > 0)


NP = int(os.environ.get("VERIF_NP", "3"))
NI = int(os.environ.get("VERIF_NI", "2"))
ALL = ["sync_books", "async_books", "sync_books_pages", "async_books_pages", "sync_names", "async_names",
       "sync_entries", "async_entries", "sync_two", "async_two"]
