"""C07 harness (classification): the real `Method.paged_result_field` of /repo on descriptor
stand-ins, so proto type numbers, labels and presence bits stay symbolic integers/booleans.
Oracle: the sentence of the property (AIP-4233 field rules)."""
import os
from types import SimpleNamespace as NS
from typing import Optional

from gapic.schema import wrappers

INT_TYPES = (3, 4, 5, 6, 7, 13, 15, 16, 17, 18)
PART = int(os.environ.get("VERIF_PART", "-1"))


# field numbers deliberately run AGAINST declaration order: "first repeated field" means first declared, not lowest number
NUMBERS = {"page_token": 3, "page_size": 1, "max_results": 2, "items1": 9, "next_page_token": 8, "items2": 5, "items3": 2}


def mk_field(name, typ, label, msg=None):
    pb = NS(name=name, type=typ, label=label, type_name=(".x.Y" if msg is not None else ""), number=NUMBERS.get(name, 1))
    return wrappers.Field(field_pb=pb, message=msg)


def mk_msg(name, fields):
    return wrappers.MessageType(message_pb=NS(name=name), fields={f.field_pb.name: f for f in fields},
                                nested_enums={}, nested_messages={})


W = (mk_msg("Int32Value", []), mk_msg("UInt32Value", []), mk_msg("Other", []))

if os.environ.get("VERIF_CANARY") == "any-wrapper":
    # in-memory mutant (never written to /repo): every message-typed size field is accepted
    wrappers.Method._validate_paged_field_size_type = \
        lambda self, page_field_size: page_field_size.type == int or isinstance(page_field_size.type, wrappers.MessageType)


def in_part(pt_present, ps_present, mr_present, npt_present, r1_present, r2_present):
    if PART < 0:
        return True
    return (int(pt_present) + 2 * int(ps_present) + 4 * int(mr_present) + 8 * int(npt_present)
            + 16 * int(r1_present) + 32 * int(r2_present)) == PART


TMAX = int(os.environ.get("VERIF_TMAX", "18"))


def scalar(t):
    return 1 <= t <= TMAX and t not in (10, 11, 14)


try:
    from crosshair.tracers import NoTracing, is_tracing
except Exception:  # pragma: no cover
    NoTracing = None
import contextlib


def untraced():
    """Object construction only stores the symbolic values; it runs untraced (cheaper paths)."""
    if NoTracing is not None and is_tracing():
        return NoTracing()
    return contextlib.nullcontext()


def run(pt_present, pt_type, ps_present, ps_type, mr_present, mr_type, mr_wrap, npt_present, npt_type,
        r1_present, r1_label, r2_present, r2_label, r3_label):
    pt_present, ps_present, mr_present, npt_present, r1_present, r2_present = (
        bool(pt_present), bool(ps_present), bool(mr_present), bool(npt_present), bool(r1_present), bool(r2_present))
    mr_is_msg = bool(mr_present and mr_type == 11)
    wrap_i = 0
    if mr_is_msg:
        wrap_i = 0 if mr_wrap == 0 else (1 if mr_wrap == 1 else 2)
    with untraced():
        m = build(pt_present, pt_type, ps_present, ps_type, mr_present, mr_type, mr_is_msg, wrap_i, npt_present,
                  npt_type, r1_present, r1_label, r2_present, r2_label, r3_label)
    got = m.paged_result_field
    got_name = got.field_pb.name if got else None
    # oracle (evaluated lazily so that it forks no more than the code under test)
    if not (pt_present and npt_present) or pt_type != 9 or npt_type != 9:
        return got_name is None
    if ps_present:
        size_ok = ps_type in INT_TYPES
    elif mr_present:
        size_ok = (mr_type in INT_TYPES) or (mr_is_msg and wrap_i in (0, 1))
    else:
        size_ok = False
    if not size_ok:
        return got_name is None
    if r1_present and r1_label == 3:
        return got_name == "items1"
    if r2_present and r2_label == 3:
        return got_name == "items2"
    if r3_label == 3:
        return got_name == "items3"
    return got_name is None


def build(pt_present, pt_type, ps_present, ps_type, mr_present, mr_type, mr_is_msg, wrap_i, npt_present, npt_type,
          r1_present, r1_label, r2_present, r2_label, r3_label):
    req = []
    if pt_present:
        req.append(mk_field("page_token", pt_type, 1))
    if ps_present:
        req.append(mk_field("page_size", ps_type, 1))
    if mr_present:
        if mr_is_msg:
            req.append(mk_field("max_results", 11, 1, msg=W[wrap_i]))
        else:
            req.append(mk_field("max_results", mr_type, 1))
    resp = []
    if r1_present:
        resp.append(mk_field("items1", 9, r1_label))
    if npt_present:
        resp.append(mk_field("next_page_token", npt_type, 1))
    if r2_present:
        resp.append(mk_field("items2", 5, r2_label))
    resp.append(mk_field("items3", 11, r3_label, msg=W[2]))
    return wrappers.Method(method_pb=NS(name="List"), input=mk_msg("Req", req), output=mk_msg("Resp", resp))


def classify(pt_present: bool, pt_type: int, ps_present: bool, ps_type: int,
             mr_present: bool, mr_type: int, mr_wrap: int, npt_present: bool, npt_type: int,
             r1_present: bool, r1_label: int, r2_present: bool, r2_label: int, r3_label: int) -> bool:
    """
    pre: in_part(pt_present, ps_present, mr_present, npt_present, r1_present, r2_present)
    pre: scalar(pt_type) and scalar(ps_type) and scalar(npt_type)
    pre: (scalar(mr_type) or mr_type == 11) and 0 <= mr_wrap <= 2
    pre: 1 <= r1_label <= 3 and 1 <= r2_label <= 3 and 1 <= r3_label <= 3
    pre: not (ps_present and mr_present)
    post: _
    """
    return run(pt_present, pt_type, ps_present, ps_type, mr_present, mr_type, mr_wrap, npt_present, npt_type,
               r1_present, r1_label, r2_present, r2_label, r3_label)


def twin(pt_present: bool, pt_type: int, ps_present: bool, ps_type: int,
         mr_present: bool, mr_type: int, mr_wrap: int, npt_present: bool, npt_type: int,
         r1_present: bool, r1_label: int, r2_present: bool, r2_label: int, r3_label: int) -> bool:
    """
    pre: pt_present and pt_type == 9 and npt_present and npt_type == 9 and scalar(ps_type)
    pre: mr_present and mr_type == 11 and mr_wrap == 1 and not ps_present
    pre: r1_present and r1_label == 3 and r2_present and r2_label == 3 and 1 <= r3_label <= 3
    post: _
    """
    # reachability twin: a paged classification with the SECOND repeated field not chosen must be reachable
    ok = run(pt_present, pt_type, ps_present, ps_type, mr_present, mr_type, mr_wrap, npt_present, npt_type,
             r1_present, r1_label, r2_present, r2_label, r3_label)
    paged = pt_present and pt_type == 9 and npt_present and npt_type == 9 and mr_present and mr_type == 11 \
        and mr_wrap == 1 and r1_present and r1_label == 3 and r2_present and r2_label == 3
    return not (ok and paged)
