"""C04 call wiring: the EMITTED `__call__` of every REST stub class (transports/rest.py of lib.apis.rest_api()).

Each `__call__` is lifted unmodified and run with recording stand-ins for the pieces that other obligations (or
api_core) own:  _Base<M>._get_http_options / _get_transcoded_request / _get_request_body_json /
_get_query_params_json (rest_base.py: checked by required_* / the option-table diff), _<M>._get_response (checked by
`send`), the interceptor, the requests session, json_format.Parse, core_exceptions.from_http_response.

For ALL (REST method, HTTP status class, timeout given or not, caller metadata given or not):
  * the http options are THIS method's (its own _Base<M>), transcoding gets exactly (those options, the request the
    pre-interceptor returned);
  * the body is computed from the transcoded request and handed to _get_response iff the method's rule declares a
    body; query parameters are computed from the same transcoded request;
  * _get_response of THIS method's stub gets (host, interceptor metadata, query params, session, timeout,
    transcoded request[, body]), once;
  * status >= 400 raises from_http_response(response) and nothing is parsed; otherwise the reply is parsed from
    response.content into an instance of the RPC's declared output type with ignore_unknown_fields=True and is what
    the caller gets after the post-interceptors (None and no parsing for Empty; a ResponseIterator of the declared
    item type for server streaming).
"""
import ast
import os
from types import SimpleNamespace as NS

from crosshair.tracers import NoTracing
from google.api import annotations_pb2
from google.api_core import gapic_v1 as real_gapic_v1

from lib import apis, emitted

OUT = os.environ["VERIF_EMITTED"]
CANARY = os.environ.get("VERIF_CANARY", "")
_FDP = apis.rest_api()[0].f
_SVC = _FDP.service[0]


def _rule(m):
    return m.options.Extensions[annotations_pb2.http] if m.options.HasExtension(annotations_pb2.http) else None


# (stub class, rpc name, snake name, declares a body, output short name | None for Empty, server streaming)
def _snake(n):
    import re
    return re.sub(r"(?<!^)(?=[A-Z])", "_", n).lower()


METHODS = []
for _m in _SVC.method:
    r = _rule(_m)
    if r is None:
        continue
    out = _m.output_type.split(".")[-1]
    METHODS.append(("_" + _m.name, _m.name, _snake(_m.name), bool(r.body), None if _m.output_type == ".google.protobuf.Empty" else out,
                    _m.server_streaming))
OWN = {("_" + _m.name): _m.output_type.startswith("." + _FDP.package + ".") for _m in _SVC.method}
N = len(METHODS)


class _Rec:
    def __init__(self):
        self.calls = []

    def add(self, *a):
        self.calls.append(a)


class _OutType:
    """stand-in for a proto-plus output class: library.<Name>() / library.<Name>.pb(x)"""
    registry = {}

    def __init__(self):
        pass

    @classmethod
    def pb(cls, x):
        return ("PB", x)


class _Types:
    def __getattr__(self, name):
        if name.startswith("__"):
            raise AttributeError(name)
        if name not in _OutType.registry:
            _OutType.registry[name] = type(name, (_OutType,), {})
        return _OutType.registry[name]


class _RawTypes:
    """stand-in for a protoc-generated *_pb2 module: its classes are raw protobuf messages (no `.pb()`)"""
    registry = {}

    def __getattr__(self, name):
        if name.startswith("__"):
            raise AttributeError(name)
        if name not in _RawTypes.registry:
            _RawTypes.registry[name] = type(name, (), {})
        return _RawTypes.registry[name]


class HttpErr(Exception):
    pass


class _Interceptor:
    def __init__(self, rec):
        self.rec = rec

    def __getattr__(self, name):
        if name.startswith("pre_"):
            def pre(request, metadata):
                self.rec.add("pre", name[4:])
                return ("PRE", request), tuple(metadata) + (("via", "interceptor"),)
            return pre
        if name.startswith("post_") and name.endswith("_with_metadata"):
            def postmd(resp, md):
                self.rec.add("postmd", name[5:-len("_with_metadata")], tuple(md))
                return ("POSTMD", resp), md
            return postmd
        if name.startswith("post_"):
            def post(resp):
                self.rec.add("post", name[5:])
                return ("POST", resp)
            return post
        raise AttributeError(name)


def _lift():
    path = os.path.join(OUT, "google/example/rs_v1/services/library/transports/rest.py")
    text = open(path).read()
    if CANARY == "ignore-errors":
        text = text.replace("if response.status_code >= 400:", "if response.status_code >= 500:", 1)
    if CANARY == "wrong-options":
        text = text.replace("http_options = _BaseLibraryRestTransport._BasePutThing._get_http_options()",
                            "http_options = _BaseLibraryRestTransport._BaseGetThing._get_http_options()", 1)
    tree = ast.parse(text)
    outer = [n for n in tree.body if isinstance(n, ast.ClassDef) and n.name == "LibraryRestTransport"][0]
    out = {}
    for c in outer.body:
        if isinstance(c, ast.ClassDef):
            for f in c.body:
                if isinstance(f, ast.FunctionDef) and f.name == "__call__":
                    src = ast.get_source_segment(text, f)
                    fn = emitted._strip(f)
                    for d in fn.args.defaults + fn.args.kw_defaults:
                        pass
                    mod = ast.Module(body=[fn], type_ignores=[])
                    ast.fix_missing_locations(mod)
                    out[c.name] = (compile(mod, "emitted:rest.py:" + c.name + ".__call__", "exec"), src)
    return out


CODE = _lift()
SOURCES = {k: v[1] for k, v in CODE.items()}
STATUS = [200, 399, 400, 503]


def conc(x, lo, hi):
    for v in range(lo, hi + 1):
        if x == v:
            return v
    return lo


def one(idx, status_i, with_timeout, with_md):
    cls, rpc, snake, has_body, out_t, sstream = METHODS[idx]
    rec = _Rec()
    base_ns, stub_ns = {}, {}
    for c2, rpc2, *_ in METHODS:
        def mk(rpc2=rpc2):
            return NS(
                _get_http_options=lambda: (rec.add("options", rpc2), ("OPTIONS", rpc2))[1],
                _get_transcoded_request=lambda o, r: (rec.add("transcode", rpc2, o, r),
                                                      {"uri": "/v1/" + rpc2, "method": "post", "query_params": ("Q", rpc2), "body": ("B", rpc2)})[1],
                _get_request_body_json=lambda t: (rec.add("body", rpc2, t["uri"]), ("BODYJSON", t["uri"]))[1],
                _get_query_params_json=lambda t: (rec.add("query", rpc2, t["uri"]), ("QUERYJSON", t["uri"]))[1])
        base_ns["_Base" + rpc2] = mk()

        def mkresp(rpc2=rpc2):
            def _get_response(host, metadata, query_params, session, timeout, transcoded_request, body=None):
                rec.add("send", rpc2, host, tuple(metadata), query_params, session, timeout, transcoded_request["uri"], body)
                return RESP
            return NS(_get_response=_get_response)
        stub_ns["_" + rpc2] = mkresp()
    status = STATUS[status_i]
    RESP = NS(status_code=status, content=("CONTENT", rpc), headers={"h": 1})
    parsed = []
    ns = {
        "_BaseLibraryRestTransport": NS(**base_ns), "LibraryRestTransport": NS(**stub_ns),
        "gapic_v1": real_gapic_v1, "OptionalRetry": None,
        "core_exceptions": NS(from_http_response=lambda r: HttpErr(r), GoogleAPICallError=HttpErr),
        "json_format": NS(Parse=lambda content, pb, ignore_unknown_fields=False: parsed.append((content, pb, ignore_unknown_fields))),
        "library": _Types(), "CLIENT_LOGGING_SUPPORTED": False, "_LOGGER": None, "logging": NS(DEBUG=10),
        "rest_streaming": NS(ResponseIterator=lambda resp, t: ("ITER", resp, t)),
        "status_pb2": _RawTypes(), "operations_pb2": _RawTypes(), "empty_pb2": _RawTypes(),
    }
    exec(CODE[cls][0], ns)
    fn = ns["__call__"]
    me = NS(_host="https://h.example", _session="SESSION", _interceptor=_Interceptor(rec))
    kw = {}
    if with_timeout:
        kw["timeout"] = 4.5
    if with_md:
        kw["metadata"] = (("k", "v"),)
    md_in = (("k", "v"),) if with_md else ()
    raised = None
    try:
        res = fn(me, "REQUEST", **kw)
    except HttpErr as e:
        raised = e
        res = None
    calls = rec.calls
    md2 = md_in + (("via", "interceptor"),)
    want_prefix = [("options", rpc), ("pre", snake), ("transcode", rpc, ("OPTIONS", rpc), ("PRE", "REQUEST"))]
    pre = [c for c in calls if c[0] in ("options", "pre", "transcode")]
    if sorted(map(repr, pre)) != sorted(map(repr, want_prefix)):
        return f"{cls}: options/pre/transcode calls {pre} != {want_prefix}"
    if calls.index(("pre", snake)) > [i for i, c in enumerate(calls) if c[0] == "transcode"][0]:
        return f"{cls}: transcoding ran before the pre-interceptor"
    bodies = [c for c in calls if c[0] == "body"]
    if bodies != ([("body", rpc, "/v1/" + rpc)] if has_body else []):
        return f"{cls}: body computations {bodies}, rule declares a body: {has_body}"
    queries = [c for c in calls if c[0] == "query"]
    if queries != [("query", rpc, "/v1/" + rpc)]:
        return f"{cls}: query computations {queries}"
    sends = [c for c in calls if c[0] == "send"]
    want_send = ("send", rpc, "https://h.example", md2, ("QUERYJSON", "/v1/" + rpc), "SESSION", 4.5 if with_timeout else None,
                 "/v1/" + rpc, ("BODYJSON", "/v1/" + rpc) if has_body else None)
    if sends != [want_send]:
        return f"{cls}: _get_response calls {sends} != [{want_send}]"
    if status >= 400:
        if raised is None or raised.args != (RESP,):
            return f"{cls}: status {status} did not raise from_http_response(response) (got {raised!r}, result {res!r})"
        if parsed or any(c[0] in ("post", "postmd") for c in calls):
            return f"{cls}: reply processed although status {status}"
        return None
    if raised is not None:
        return f"{cls}: status {status} raised {raised!r}"
    if out_t is None:
        if res is not None or parsed:
            return f"{cls}: Empty reply returned {res!r} / parsed {parsed}"
        return None
    if sstream:
        ok = (isinstance(res, tuple) and res[0] == "POSTMD" and res[1][0] == "POST" and res[1][1][0] == "ITER"
              and res[1][1][1] is RESP and res[1][1][2].__name__ == out_t)
        return None if ok else f"{cls}: streaming reply {res!r}"
    if len(parsed) != 1:
        return f"{cls}: {len(parsed)} parse calls"
    content, pb, iuf = parsed[0]
    if OWN[cls]:
        # proto-plus response: the parse target is the underlying protobuf of a fresh instance of the declared type
        target_ok = isinstance(pb, tuple) and pb[0] == "PB" and type(pb[1]).__name__ == out_t
        inst = pb[1] if target_ok else None
    else:
        # raw protobuf response (another package): the fresh instance itself is the parse target
        target_ok = not isinstance(pb, tuple) and type(pb).__name__ == out_t
        inst = pb
    if content != ("CONTENT", rpc) or iuf is not True or not target_ok:
        return f"{cls}: parsed {content!r} into {pb!r} (ignore_unknown_fields={iuf}); expected the content into a {out_t}"
    ok = (isinstance(res, tuple) and res[0] == "POSTMD" and res[1][0] == "POST" and res[1][1] is inst)
    if not ok:
        return f"{cls}: returned {res!r}, not the parsed {out_t} after the post-interceptors"
    posts = [c for c in calls if c[0] in ("post", "postmd")]
    if [c[:2] for c in posts] != [("post", snake), ("postmd", snake)] or posts[1][2] != (("h", "1"),):
        return f"{cls}: post-interceptor calls {posts}"
    return None


def problem(idx, status_i, with_timeout, with_md):
    return one(idx, status_i, with_timeout, with_md)


def call_wiring(which: int, status: int, with_timeout: bool, with_md: bool) -> bool:
    """
    pre: 0 <= which < N and 0 <= status <= 3
    post: _
    """
    i, s = conc(which, 0, N - 1), conc(status, 0, 3)
    t, m = (True if with_timeout else False), (True if with_md else False)
    with NoTracing():
        return problem(i, s, t, m) is None


def twin(which: int, status: int, with_timeout: bool, with_md: bool) -> bool:
    """
    pre: 0 <= which < N and 0 <= status <= 3
    post: _
    """
    i, s = conc(which, 0, N - 1), conc(status, 0, 3)
    t, m = (True if with_timeout else False), (True if with_md else False)
    with NoTracing():
        ok = problem(i, s, t, m) is None
    return not (ok and i == N - 1 and s == 2 and t and not m)
