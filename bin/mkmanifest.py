#!/usr/bin/env python3
"""Regenerate /verif/MANIFEST.json from the table below (single source of truth)."""
import json
import os

VERIF = os.path.dirname(os.path.dirname(os.path.abspath(__file__)))

NA = {
    "C01": "whole-program observable (CPython compile + import of ~50 emitted files per API); once the "
           "descriptor set is fixed nothing remains for a solver to quantify over, and descriptors cannot be "
           "symbolic (upb C objects, Jinja/MarkupSafe C code). DESIGN.md section 8.",
    "C02": "the judge is protobuf's C runtime (serialise/parse/JSON); the declaration diff is a concrete "
           "per-program comparison with no symbolic input. DESIGN.md section 8.",
    "C13": "observable is a pytest run over ~6k lines of emitted tests per API against the emitted package "
           "(mocks, gRPC, requests objects): whole-program execution far outside per-path symbolic budgets. "
           "DESIGN.md section 8.",
}

# id -> (engine, technique, category, text, design_ref, level_note, has_thorough)
CHECKS = {}


def add(pid, engine, technique, text, design_ref, note, thorough=True, category="model_checking"):
    CHECKS[pid] = dict(engine=engine, technique=technique, text=text, design_ref=design_ref,
                       note=note, thorough=thorough, category=category)


add("C19", "RX+BSTR",
    "bounded SMT: z3 string/regex validity queries over the emitted regex and format string; "
    "exact-backtracking-order symbolic matcher (z3 ints) for the selected parse",
    "For every pattern of a bounded grammar, rendered through the current templates: for ALL segment values "
    "within the length bound the emitted helpers are mutual inverses, and the emitted regex language equals "
    "the pattern's reference language (bounded SMT verdict, counterexamples replayed on the emitted code); every resource "
    "the API uses (incl. LRO-only ones, file-level ones and ones defined in a dependency package) gets its helper pair; the "
    "exact engine runs the emitted helper functions themselves.",
    "DESIGN.md section 5 C19",
    "Patterns are enumerated (grammar), values are symbolic up to the stated lengths; values are non-empty, "
    "delimiter-free ('/' allowed in trailing **), newline-free; trusted: z3, CPython sre parser, the RX/BSTR "
    "translators (validated against CPython re on concrete strings each run).")

add("C07", "CH",
    "CrossHair (z3) per-path symbolic execution: real Method.paged_result_field on descriptor stand-ins; "
    "emitted pagers.py loaded unmodified over symbolic page histories",
    "For ALL proto types/labels/presence patterns the classification equals the AIP-4233 sentence; for ALL server "
    "page histories within the bound the emitted sync and async pagers yield the items in order, thread tokens, keep "
    "request/options, stop at the first empty token and expose the most recent page; the emitted list method hands the "
    "pager the wrapped rpc, the request it sent, the first page and the caller's options (CrossHair 'Confirmed over all "
    "paths'; counterexamples replayed in plain Python).",
    "DESIGN.md section 5 C07",
    "Bounds: <=3 pages x <=2 items quick (5 x 2 thorough), tokens <=2 chars. Message classes are pure-Python stand-ins "
    "(lib/fakes.py); descriptors are SimpleNamespace stand-ins. Trusted: CrossHair 0.0.110 + z3 (guarded by a "
    "reachability twin and in-memory mutant canaries each run).")

CLIENT_NOTE = ("Emitted client methods are lifted unmodified from the freshly rendered client.py/async_client.py; message, "
               "transport, uuid, operation-future and header-encoding objects are pure-Python stand-ins (lib/fakes.py, "
               "lib/emitted.py); string/list/map values come from small menus selected by symbolic integers. Trusted: "
               "CrossHair 0.0.110 + z3, guarded per run by reachability twins and in-memory mutant canaries.")

add("C03", "CH (+ concrete table diff)",
    "CrossHair (z3) on emitted sync/async client methods with recording stand-ins; concrete AST table diff of the emitted gRPC stubs",
    "Client layer only: for ALL request kinds (message/dict/None) and presence patterns exactly one dispatch on the wrapped "
    "method of the right RPC with the equivalent message and the caller's options, reply passed through (None for void, "
    "pager/future wiring), sync == async (CrossHair confirmed over all paths). The stub table (method path, arity, "
    "serializers) is a concrete diff against the descriptors and is labelled as such.",
    "DESIGN.md section 5 C03", CLIENT_NOTE + " Everything below _wrapped_methods (serialisation, channel, wire) is outside the claim.")

add("C05", "CH",
    "CrossHair (z3) on emitted sync/async client methods: kwargs-call vs request-call over all presence patterns",
    "For ALL presence patterns of flattened parameters and request kinds, and all menu values (incl. falsy-but-set): "
    "ValueError iff both given and then nothing sent; otherwise the message reaching the transport equals the reference "
    "message under the wire keys (dotted, repeated, map, reserved names, cross-package requests); sync == async; "
    "declared parameter order via inspect.signature. The asyncio client's handling of an EMPTY list for a dotted repeated "
    "leaf is a recorded known finding (F11), replayed concretely on the real emitted package each run.",
    "DESIGN.md section 5 C05", CLIENT_NOTE)

add("C06", "RX+CH+BSTR",
    "z3 regex language inclusion / capture agreement of the live routing regex vs an AIP-4222 reference; CrossHair on emitted "
    "header assembly; BSTR on field_headers / FieldHeader.disambiguated",
    "For every template of a bounded grammar and ALL newline-free values: the emitted routing regex contributes exactly the "
    "segment AIP-4222 prescribes (unsat of both language differences and of capture disagreement); header assembly in the "
    "emitted sync/async methods equals the reference resolution (later wins, no header when nothing matches); implicit "
    "header keys/attribute paths for ALL identifiers within the length bound.",
    "DESIGN.md section 5 C06",
    "Templates enumerated from a grammar (36 quick); values symbolic (RX), menus (CH), identifiers <= 22 / dotted <= 3 "
    "segments (BSTR). URL-encoding inside api_core's to_grpc_metadata is outside the claim. " + CLIENT_NOTE)

add("C18", "CH",
    "CrossHair (z3): real API.enforce_valid_method_settings on stand-ins vs the AIP-4235 predicate; emitted client methods "
    "over presence/value patterns of auto-populated fields",
    "Validation: for ALL settings lists within the bound (selectors existing/missing/duplicate/streaming, field declared "
    "or not, type, required, format, nested) the validator raises iff AIP-4235 is violated. Population: for ALL "
    "presence/value patterns the emitted sync/async methods never alter a caller value and populate unset (optional) "
    "resp. empty (plain) fields with fresh, pairwise different values. Generation path rejects duplicates (concrete).",
    "DESIGN.md section 5 C18",
    "<= 2 settings entries quick / 3 thorough, <= 2 fields per entry, selectors from a menu of 5 (two unary, one missing, "
    "one streaming, one with a leading dot); yaml.dump error rendering stubbed. " + CLIENT_NOTE)

add("C16", "CH",
    "CrossHair (z3) enumeration with solver-proved exhaustion over the real API.build (all passes) on descriptor sets "
    "selected by symbolic booleans; reachability-closure oracle",
    "For ALL type graphs / RPC type choices / non-empty allow-list subsets within the bound the kept messages, enums, "
    "services, methods and files equal the reference reachability closure (fields, nested types, enum-only file, "
    "other-file message, resource reference, LRO types), no dangling field type, dependency files untouched; internal "
    "mode keeps everything and marks exactly the unlisted RPCs/services; unknown and other-version names rejected; a kept "
    "extended-operation RPC keeps the polling method it needs (Compute-style API, both declaration orders, all allow-lists).",
    "DESIGN.md section 5 C16",
    "3 top-level messages, 6 cross edges, 3 structure variants quick (24 thorough), 3 RPCs in 2 services. The symbolic "
    "inputs only select the structure: path exploration with exhaustion proved by CrossHair/z3 (weakest solver use, "
    "stated). Rendering/importing the pruned library is outside the claim.")

add("C20", "BSTR",
    "own bounded symbolic string executor (z3 integer characters, CPython backtracking order) running the real "
    "fix_whitespace, rst and wrap; validity queries at every leaf",
    "Formatter: for ALL strings of two bounded families fix_whitespace is idempotent, ends with exactly one newline and "
    "changes only trailing blanks / blank lines (normal-form equality, the surrogate for 'AST unchanged'). Docstring "
    "guard: for ALL texts within the bound the real rst()+wrap() output cannot terminate a triple-quoted literal early "
    "(Python tokenizer rule encoded in z3), in every form (raw / trimmed) in which a template lets it meet the closing quotes. Re-flow: for ALL texts of two bounded families and several (width, indent, "
    "offset) settings the real wrap() never drops, duplicates or reorders a word and every output line fits the width "
    "(first line: width - offset) unless it is a single unbreakable word (textwrap replaced by a validated model). Comment "
    "selection: for ALL leading/trailing/detached comments within the bound the words of Metadata.doc are the words of the "
    "first non-empty source.",
    "DESIGN.md section 5 C20",
    "Family U: all strings <= 6 (quick) / 8 chars over an 8-character alphabet; family S: structured strings up to ~20 "
    "chars; rst and wrap texts <= 6 / 8 chars for 5 / 9 (width, indent, offset) settings; comments <= 3 / 4 chars. textwrap is "
    "replaced by a step-by-step model validated against the real module on "
    "each run; texts whose over-long first line has tabs/leading blanks (known finding F3) and the pandoc "
    "branch are outside the claim. Trusted: z3, sre "
    "parser, the BSTR engine (validated against the real functions on concrete strings every run).")

add("C12", "BSTR+CH",
    "BSTR symbolic execution of every schema-side renamer over symbolic identifiers (z3 validity at each leaf); CrossHair on "
    "the lifted file-name disambiguation closure and on Address alias/import rendering",
    "For EVERY identifier within the length bound each renamer (Field.name, convert_uri_fieldnames, HttpRule body, "
    "FieldHeader.disambiguated, client_method_name, transport_safe_name) renames iff reserved, by exactly one '_', per "
    "dotted segment, leaving the rest of its input (the wire-side text) untouched; file-name disambiguation ends outside "
    "the forbidden and visited sets; the module bound by the rendered import equals the head of the rendered reference; flattened reserved-name "
    "parameters reach the wire under the original key (emitted client, CrossHair).",
    "DESIGN.md section 5 C12",
    "Identifiers <= 22 chars over [a-z_] (RPC names <= 16 over [A-Za-z_]), dotted paths <= 3 segments; file and module "
    "names from stated menus. That the renamed entity is importable/reachable and the wire shows the original is observed "
    "only through the client harness (class_/from_ flattened calls and the stub table diff), otherwise outside the claim.")

add("C04", "BSTR+CH (+ concrete table diff)",
    "BSTR symbolic execution of convert_uri_fieldnames / HttpRule body / Method.path_params; CrossHair on the emitted "
    "required-default injection and on Method.query_params; concrete diff of the emitted http-option tables",
    "Generator-side half of transcoding: for ALL identifiers within the bound the rule table rewrites only reserved "
    "variable segments and the body; for ALL presence patterns of the query keys the emitted code adds exactly the typed "
    "defaults of required scalar non-path non-body fields and the numeric-enum marker; for ALL (verb, path-variable "
    "subset, body kind) query_params/path_params equal the reference split. The emitted option tables equal the rule "
    "bindings in order (concrete diff, labelled as such); the emitted _get_response of every REST method sends a payload "
    "iff its binding declares a body, for every verb; the emitted __call__ of every REST stub wires its own options, the "
    "transcoded request, body/query, its own _get_response, the error branch (status >= 400) and the parse into the "
    "declared output type, for ALL (stub, status class, timeout, metadata).",
    "DESIGN.md section 5 C04",
    "URL expansion, query flattening, JSON encoding and reply parsing are api_core/protobuf/requests code and outside "
    "the claim; json_format/json are pass-through stubs. Dotted path variables in path_params and defaults of "
    "message/repeated required fields are outside the claim; the enum default is a recorded known finding (F7).")

add("C11", "BSTR+CH (+ concrete structure diff)",
    "BSTR symbolic execution of Generator._get_filename (with to_valid_module_name, versioned_module_name) and of "
    "Naming.build over symbolic name/package strings; CrossHair on Options.build over token menus",
    "For EVERY template name of the tree and ALL naming strings within the bound the output path is relative, normalised, "
    "free of '%' and under <namespace>/<name>_<version>/ (<name> when unversioned); for ALL package strings within the bound "
    "Naming.build infers the expected (namespace, name, version) and overrides replace exactly their part; unknown option "
    "tokens never change the parsed Options. Per rendered program the file-set structure is diffed concretely.",
    "DESIGN.md section 5 C11",
    "Strings of 2-3 symbolic characters per component, eight version shapes with symbolic digits; package segments that "
    "look like versions excluded; two-template "
    "collisions and snake-case coincidences of service/proto names are outside the claim.")

add("C09", "CH (+ concrete table diff)",
    "CrossHair (z3) enumeration with solver-proved exhaustion over the real _get_retry_and_timeout on service configs "
    "assembled from symbolic selectors; concrete diff of the emitted _prep_wrapped_messages defaults",
    "Generator-side half: for ALL service configs within the bound the selected entry is the first one naming the method "
    "exactly (prefix-related names, service-level names, other services never match), with its timeout and policy, else "
    "(None, None); the rendered defaults of every method equal the selected entry for two configurations (concrete).",
    "DESIGN.md section 5 C09",
    "<= 2 entries quick / 3 thorough; durations from a menu of 4 (float parsing is C code, _to_float otherwise outside); "
    "the retry loop, back-off sleeps, deadlines and per-call overrides are api_core behaviour and outside the claim.")

add("C08", "CH",
    "CrossHair (z3) enumeration with solver-proved exhaustion over the real API.build on LRO annotations assembled from "
    "symbolic selectors; CrossHair on the emitted LRO client methods with a recording from_gapic",
    "Generation-time clause and wiring: for ALL (output type, annotation present, response/metadata name kind) an "
    "un-annotated Operation method stays raw, an annotated one lacking a name is rejected, otherwise both types resolve "
    "relative to the method's package even from a file that is not imported; the emitted sync/async methods build the "
    "future from the reply, the transport's operations client and exactly those classes; the emitted operations_client "
    "properties bind the polling client to the instance's own channel / host, credentials and scopes.",
    "DESIGN.md section 5 C08",
    "Type names from a menu of 6; polling histories and Any unpacking are api_core/gRPC behaviour and outside the claim.")

add("C15", "CH (+ concrete AST diff)",
    "CrossHair (z3) enumeration with solver-proved exhaustion over the real API.build + gapic_metadata / "
    "legacy_flattened_fields; concrete AST diff of emitted metadata and fix-up table against the emitted package",
    "For ALL transport sets, internal-mode settings and allow-list subsets the metadata lists every service/RPC once per "
    "implied client kind with the class and method names the templates use; for ALL required-bit patterns the legacy "
    "field order is required-first then declaration order. Per program the named classes/methods exist in the emitted "
    "modules and METHOD_TO_PARAMS equals the descriptors (concrete).",
    "DESIGN.md section 5 C15",
    "2 services, 4 RPCs (keyword-named and transport-unsafe included), 6 request fields; existence in the emitted package "
    "is established by AST, not by import.")

add("C17", "CH (+ concrete diff)",
    "CrossHair (z3) enumeration with solver-proved exhaustion over the real API.build + mixin selection on service YAMLs "
    "assembled from symbolic selectors; concrete diff of emitted clients/stubs",
    "Selection clause: for ALL subsets of the three mixin APIs, rule sets, an unrelated rule and an API-defined IAM RPC in "
    "any service the exposed mixin set equals {RPC of a listed API that has a rule}, the clashing IAM RPC is never a mixin, "
    "and the REST option rows equal the YAML rules. Call clause: for ALL (mixin RPC, request as dict/message, routing value, "
    "options given/defaulted) the emitted sync/async method dispatches once on its own wrapped method with the standard "
    "request type, the routing header appended to the caller's metadata and the caller's retry/timeout. Emitted "
    "clients/stubs expose exactly the selected methods, each dispatching through a unary stub with the canonical path and "
    "the standard serializer/deserializer, for five configurations (concrete).",
    "DESIGN.md section 5 C17",
    "Rule sets per API from menus (4 x 3 x 3); where the API defines a clashing IAM RPC both readings of 'yield' (per RPC / "
    "all-or-nothing) are accepted for the non-clashing IAM RPCs. The HTTP request of the REST mixins and everything "
    "below transport._wrapped_methods are outside the claim; the mixin request classes are the real pb2 classes, "
    "so the emitted methods run on concretised selectors.")

add("C14", "CH+RX (+ concrete diff)",
    "CrossHair (z3) enumeration with solver-proved exhaustion over the real Snippet segment parser on symbolic marker "
    "layouts; z3 regex inclusion for the region-tag format; concrete AST/text diff of emitted samples",
    "Bookkeeping clause: for ALL marker layouts of a 12/16-line sample the six segments and full_snippet are exactly the line "
    "ranges between the markers; every tag the generator can build from identifier-shaped names is in the documented "
    "format. Per program: one sync+async sample per RPC, unique matching tags, samples compile, request set-up assigns only "
    "real field paths, docstring snippet and metadata entry (names, segments, parameter names vs the emitted client "
    "signature, per-service host) match the file, one member per oneof, awaitable client calls awaited in asyncio "
    "samples (concrete).",
    "DESIGN.md section 5 C14",
    "Executing the samples against a server and the TYPES recorded in the metadata are outside the claim; the "
    "docstring comparison ignores blank lines (the formatter may drop them inside string literals, C20).")

add("C10", "z3 strings + site inventory + multi-seed replay",
    "order-adversary formulation: AST/Jinja inventory of every set iteration, z3 (strings) key-injectivity obligation per "
    "sorted site, sat models replayed as requests under several PYTHONHASHSEEDs in separate processes",
    "Every place where set iteration order can reach the output is classified on each run; a sorted site is discharged when "
    "z3 shows that no two distinguishable elements share a sort key (then it is order-insensitive for EVERY order; key "
    "lambdas of Python sorted() sites are run symbolically on two strings), a raw site (incl. loops over a {% set %} alias "
    "of a set) needs a reviewed justification whose side condition is re-checked, anything else is inconclusive; a battery "
    "of requests (equal short resource names, five sub-packages, retry codes, three extended-operation services, a relative "
    "template directory, ...) must be byte-identical across hash seeds, two working directories and two fake wall clocks; "
    "every use of clock / randomness / environment / cwd / object identity in the generator is on a reviewed list.",
    "DESIGN.md section 5 C10",
    "The classification is syntactic (AST of gapic/**/*.py, line-based for templates); 3 seeds quick / 8 thorough in the "
    "replay; non-set sources of nondeterminism (time, cwd, environment) are covered by the replay only.",
    category="other")

PENDING = {}


def main():
    props = [json.loads(l)["id"] for l in open(os.path.join(VERIF, "properties.jsonl"))]
    checks = []
    for pid in props:
        if pid not in CHECKS:
            continue
        c = CHECKS[pid]
        entry = {
            "property_id": pid,
            "quick_cmd": f"./check {pid} --tier quick",
            "evidence_file": f"/verif/evidence/{pid}.json",
            "replay_cmd_template": f"./check {pid} --replay {{path}}",
            "engine": c["engine"],
            "level_claimed": {"category": c["category"], "text": c["text"], "design_ref": c["design_ref"]},
            "level_note": c["note"],
            "technique": c["technique"],
        }
        if c["thorough"]:
            entry["thorough_cmd"] = f"./check {pid} --tier thorough"
        checks.append(entry)
    na = []
    for pid in props:
        if pid in CHECKS:
            continue
        reason = NA.get(pid) or PENDING.get(pid) or "check not built yet in this round (planned, see DESIGN.md section 5)"
        na.append({"property_id": pid, "reason": reason})
    man = {
        "version": 1,
        "setup_cmd": "./bin/ensure_env.sh",
        "hooks": {
            "guard": "GOOGLEAPIS_GAPIC_GENERATOR_PYTHON_VERIF",
            "enable": "no hooks are compiled into /repo; checks export GOOGLEAPIS_GAPIC_GENERATOR_PYTHON_VERIF=1 "
                      "for uniformity and read /repo's working tree directly (editable install)",
            "baseline_off_cmd": "cd /repo && /venv/bin/python -m pytest -ra -q -p no:cacheprovider --timeout=900 "
                                "--continue-on-collection-errors",
            "source_commits": [],
            "add_only": True,
        },
        "engines": [
            {"name": "RX", "path": "lib/rx.py", "serves_properties": ["C19", "C06", "C12", "C10", "C14", "C20"],
             "kind_free_text": "Python sre parse tree -> z3 regex/string constraints (language inclusion, existential parses)"},
            {"name": "BSTR", "path": "lib/bstr.py", "serves_properties": ["C19", "C20", "C11", "C04", "C12", "C06"],
             "kind_free_text": "own bounded symbolic string executor: concrete lengths, z3 integer characters, "
                               "CPython backtracking order, real code run after an AST rewrite of string constants"},
            {"name": "CH", "path": "lib/ch.py", "serves_properties": ["C03", "C05", "C07", "C08", "C09", "C15", "C16", "C17", "C18"],
             "kind_free_text": "CrossHair 0.0.110 (z3) per-path symbolic execution of regex-free real code: schema classes on "
                               "descriptor stand-ins, emitted modules loaded with message stand-ins"},
            {"name": "generator driver", "path": "lib/gen.py", "serves_properties": [],
             "kind_free_text": "concrete: builds descriptor sets in-process and runs the real generator of the working tree"},
        ],
        "checks": checks,
        "not_applicable": na,
        "notes": "Technique family: solver-based checking of the real code. Exit 0 pass / 1 replayed violation / "
                 "2 inconclusive (never reported as success). See DESIGN.md.",
    }
    with open(os.path.join(VERIF, "MANIFEST.json"), "w") as f:
        json.dump(man, f, indent=1)
        f.write("\n")


if __name__ == "__main__":
    main()
