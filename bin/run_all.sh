#!/bin/sh
# run every claimed check (quick by default) on the current /repo tree and summarise
TIER=${1:-quick}
cd /verif
for id in C03 C04 C05 C06 C07 C08 C09 C10 C11 C12 C14 C15 C16 C17 C18 C19 C20; do
  s=$(date +%s)
  ./check $id --tier $TIER > /tmp/runall_$id.log 2>&1; rc=$?
  e=$(date +%s)
  echo "$id exit=$rc wall=$((e-s))s $(tail -1 /tmp/runall_$id.log)"
done
