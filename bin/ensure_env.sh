#!/bin/sh
# Build (idempotently) the overlay venv used by every check: /venv's python and
# site-packages + crosshair-tool/z3-solver/cvc5 from the offline wheelhouse.
set -e
V=/verif/.venv
STAMP=$V/.ok
if [ -f "$STAMP" ] && "$V/bin/python" -c 'import z3, crosshair, gapic' >/dev/null 2>&1; then exit 0; fi
(
  flock 9
  if [ -f "$STAMP" ] && "$V/bin/python" -c 'import z3, crosshair, gapic' >/dev/null 2>&1; then exit 0; fi
  rm -rf "$V"
  /venv/bin/python -m venv "$V"
  SP=$("$V/bin/python" -c 'import sysconfig; print(sysconfig.get_paths()["purelib"])')
  printf "import site; site.addsitedir('/venv/lib/python3.12/site-packages')\n" > "$SP/verif_overlay.pth"
  PIP_NO_INDEX=1 "$V/bin/python" -m pip install -q --no-index --find-links /opt/veriftools/wheels crosshair-tool z3-solver cvc5 >/dev/null
  "$V/bin/python" -c 'import z3, crosshair, gapic, cvc5'
  touch "$STAMP"
) 9>/verif/.venv.lock
