#!/bin/sh
# usage: seedtest.sh <seed-id> <check-id> [tier]   -- apply a seeded change to /repo, run a check, undo
SEED=$1; ID=$2; TIER=${3:-quick}
cd /repo || exit 9
git diff --quiet || { echo "/repo has uncommitted changes"; exit 9; }
git apply /verif/seeded/$SEED/patch.diff || exit 9
cd /verif && ./check $ID --tier $TIER > /tmp/seedtest_$SEED_$ID.log 2>&1; RC=$?
git -C /repo checkout -- .
echo "seed=$SEED check=$ID tier=$TIER exit=$RC"
grep -E "^VIOLATION|^INCONCLUSIVE|^  " /tmp/seedtest_$SEED_$ID.log | head -${LINES_SHOWN:-6}
tail -1 /tmp/seedtest_$SEED_$ID.log
