"""debug helper: enumerate a harness function's (small, finite) precondition domain concretely."""
import inspect, itertools, os, sys, typing
sys.path.insert(0, "/verif")
from lib import gen, apis, ch

def domain(ann):
    if ann is bool: return [False, True]
    if ann is int: return list(range(0, 9))
    if ann == typing.Optional[int]: return [None] + list(range(0, 8))
    raise ValueError(ann)

def pre_ok(fn, mod, args):
    doc = fn.__doc__ or ""
    names = list(inspect.signature(fn).parameters)
    env = dict(vars(mod)); env.update(zip(names, args))
    for line in doc.splitlines():
        line = line.strip()
        if line.startswith("pre:"):
            if not eval(line[4:], env): return False
    return True

if __name__ == "__main__":
    which, path = sys.argv[1], sys.argv[2]
    if which == "client":
        g = gen.generate(apis.client_api(), parameter="transport=grpc+rest", service_yaml=apis.CLIENT_SERVICE_YAML)
    os.environ["VERIF_EMITTED"] = g.outdir
    mod = ch.load_module(path)
    for name in sys.argv[3:]:
        fn = getattr(mod, name)
        hints = typing.get_type_hints(fn); hints.pop("return", None)
        doms = [domain(hints[p]) for p in inspect.signature(fn).parameters]
        n = bad = 0
        import random
        combos = list(itertools.product(*doms))
        if len(combos) > 2500:
            random.seed(1); combos = random.sample(combos, 2500)
        for args in combos:
            if not pre_ok(fn, mod, args): continue
            n += 1
            try: r = fn(*args)
            except Exception as e: r = f"EXC {type(e).__name__}: {e}"
            if r is not True:
                bad += 1
                if bad <= 3: print("  FAIL", name, args, r)
        print(name, "cases", n, "bad", bad, flush=True)
