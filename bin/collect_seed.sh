#!/bin/sh
# usage: collect_seed.sh <tag> <dest-id>   e.g. collect_seed.sh c05 C05-a
# Verifies an agent-made seeded change in /tmp/seed/<tag>: test-suite still 609 passed with the change,
# demo fails with it and passes without it; then stores patch+demo under /verif/seeded/<dest-id>/.
set -e
TAG=$1; DEST=/verif/seeded/$2; WT=/tmp/seed/$TAG
cd $WT
git diff > /tmp/seed/$TAG.patch
test -s /tmp/seed/$TAG.patch || { echo "empty patch"; exit 1; }
DEMO=$(ls demo_*.py | head -1)
T_WITH=$(/venv/bin/python -m pytest -q -p no:cacheprovider tests/unit 2>&1 | tail -1)
set +e
/venv/bin/python $DEMO > /tmp/seed/$TAG.demo_with.log 2>&1; D_WITH=$?
git apply -R /tmp/seed/$TAG.patch
/venv/bin/python $DEMO > /tmp/seed/$TAG.demo_without.log 2>&1; D_WITHOUT=$?
git apply /tmp/seed/$TAG.patch
set -e
echo "tests with change: $T_WITH"; echo "demo with change exit=$D_WITH; without exit=$D_WITHOUT"
case "$T_WITH" in *"609 passed"*) ;; *) echo "REJECT: tests"; exit 1;; esac
[ "$D_WITH" != 0 ] && [ "$D_WITHOUT" = 0 ] || { echo "REJECT: demo"; exit 1; }
mkdir -p $DEST
cp /tmp/seed/$TAG.patch $DEST/patch.diff
cp $DEMO $DEST/demo.py
tail -5 /tmp/seed/$TAG.demo_with.log > $DEST/demo_with_change.log
echo "$T_WITH" > $DEST/tests_with_change.txt
echo "stored in $DEST"
