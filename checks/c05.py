"""C05 -- flattened keyword arguments are equivalent to an explicit request object.

CrossHair (z3) on the emitted sync and asyncio client methods, lifted unmodified from the freshly
rendered client.py / async_client.py: for ALL presence patterns of the flattened parameters and of
the request (None / message / dict) and all menu values: ValueError iff both are given, and then
nothing was sent; otherwise the message handed to the transport equals the reference message built
from the same key/value pairs under the wire key; sync == async.  Parameter order is read with
inspect.signature of the lifted functions.
"""
from __future__ import annotations

import json
import os
import subprocess
import sys

from checks import _client
from lib import ch, core


def retag_empty(g):
    p = subprocess.run([sys.executable, os.path.join(core.VERIF, "checks", "_c05_known.py"), g.outdir],
                       capture_output=True, text=True, timeout=300)
    if p.returncode != 0:
        raise core.Inconclusive(f"_c05_known.py failed: {p.stderr[-300:]}")
    d = json.loads(p.stdout.strip().splitlines()[-1])
    return {key: (which, d[which], d["explicit"]) for which, key in
            (("sync", "sync-dotted-repeated-empty"), ("async", "async-dotted-repeated-empty"))}


def known_input_async_retag(chk, g):
    """finding F11: the one input flat_retag_book leaves to this concrete replay (real emitted package, real proto-plus)"""
    for key, (which, got, want) in retag_empty(g).items():
        if got != want:
            chk.violation(key, f"{which} retag_book(tags=[]) (signature 'book.name,book.tags') sends bytes {got!r}; the explicit request "
                          f"RetagBookRequest(book=Tagged(tags=[])) serialises to {want!r}", {"kind": "retag-empty"})
        else:
            chk.ok("dotted repeated leaf, empty list (concrete, real proto-plus)", which)


def replay(chk, data):
    if data.get("kind") == "retag-empty":
        from lib import apis, gen
        g = gen.generate(apis.client_api(), parameter="transport=grpc+rest", service_yaml=apis.CLIENT_SERVICE_YAML)
        which, got, want = retag_empty(g)[data["key"]]
        return None if got == want else f"{which} retag_book(tags=[]) sends {got!r}, explicit request {want!r}"
    return _client.replay(chk, data)


def body(chk: core.Check):
    _client.common(chk)
    quick = chk.tier == "quick"
    timeout = 240 if quick else 1200
    chk.bound("flattened_parameters_per_method", "<= 5")
    chk.bound("menu_sizes", "2..3 values per field incl. the falsy-but-set values '' / 0 / [] / {}")
    chk.bound("request_kinds", "None, message, dict")
    chk.bound("crosshair_per_condition_timeout_s", timeout)
    g = _client.render(chk)
    hm = ch.load_module(_client.HARNESS, {"VERIF_EMITTED": g.outdir})
    methods = ["get_book", "create_book", "tag_book", "move_book", "retag_book", "shelve_book", "update_book", "delete_book", "check_operation",
               "mask", "import_", "stream_books"]
    ec = _client.encode_sources(chk, g, methods)
    # declared order of the flattened parameters (concrete, inspect.signature)
    for m, exp in hm.EXPECTED_SIGNATURES.items():
        for which, cls in (("client", "LibraryClient"), ("async_client", "LibraryAsyncClient")):
            sig = ec.signature(which, cls, m)
            want = ["self", "request"] + exp + ["retry", "timeout", "metadata"]
            if m in ("upload", "chat"):
                continue
            if sig != want:
                chk.violation(f"signature:{which}.{m}", f"parameters {sig} != declared order {want}",
                              {"harness": "harness/h_client.py", "call": "True", "env": {}})
            else:
                chk.ok("signature", f"{which}.{m}")
    known_input_async_retag(chk, g)
    _client.run_funcs(
        chk, g, hm.C05_FUNCS, "flatten", timeout, partitions=_client.KIND_PARTS,
        twins=[("twin_flat", "kwargs-only create_book call reaches the final comparison")],
        canaries=[("drop-flatten-apply", "flat_create_book", "sync create_book without `request.book_id = book_id` (in-memory mutant)"),
                  ("async-any", "flat_get_book", "async has_flattened_params = any(flattened_params) (in-memory mutant)")])


if __name__ == "__main__":
    core.run_check("C05", __doc__.strip().splitlines()[0], body, replay)
