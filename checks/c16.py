"""C16 -- selective generation keeps exactly the listed RPCs and a closed, minimal set of types.

CrossHair/z3 over the REAL API.build (all passes) on descriptor sets assembled from symbolic booleans:
for ALL type graphs within the bound (field edges incl. cycles and self edges, nested message/enum, an
enum living in an enum-only file, a message in another file, a resource reference, LRO response and
metadata types), ALL RPC input/output choices and ALL non-empty subsets of allow-listed RPCs (plus a Compute-style API
whose initiating RPC needs the extended-operation polling method of another service, in both declaration orders):
kept messages/enums/services/methods/files == reference reachability closure, no dangling field
type, dependency files untouched; internal mode keeps everything and marks exactly the unlisted RPCs
and their services; unknown / other-version names are rejected.
"""
from __future__ import annotations

import os

from lib import ch, core

H = os.path.join(core.VERIF, "harness", "h16_selective.py")


def body(chk: core.Check):
    quick = chk.tier == "quick"
    chk.engines.add("CH (CrossHair 0.0.110 + z3), selector-symbolic, realised-untraced")
    timeout = 400 if quick else 3000
    env = {"VERIF_TIER": chk.tier}
    hm = ch.load_module(H, env)
    chk.bound("messages", "M0..M2 (+ nested M0.N, nested enum M0.NE, X/Y in another file, enum E in an enum-only file)")
    chk.bound("cross_edges", 6)
    chk.bound("extra_structure_variants", len(hm.EXTRAS))
    chk.bound("rpcs", "Svc1.A (symbolic in/out), Svc1.B (plain or LRO), Svc2.C; every non-empty allow-list subset")
    chk.bound("crosshair_per_condition_timeout_s", timeout)
    chk.assumptions += [
        "symbolic inputs only select the structure; each feasible combination runs the real API.build once "
        "(path exploration with solver-proved exhaustion: the weakest use of a solver in this framework)",
    ]
    chk.outside += ["that the pruned model renders to an importable library and kept RPCs behave as in the full one",
                    "graphs larger than the bound"]
    for fn in ("Proto.add_to_address_allowlist", "Proto.prune_messages_for_selective_generation",
               "API.enforce_valid_library_settings"):
        src = open(f"{core.REPO}/gapic/schema/api.py").read()
        i = src.index("def " + fn.split(".")[1])
        chk.encoded(f"gapic/schema/api.py: {fn} (+ API.build third pass)", src[i:i + 3000])
    wsrc = open(f"{core.REPO}/gapic/schema/wrappers.py").read()
    chk.encoded("gapic/schema/wrappers.py: *.add_to_address_allowlist, prune_messages_for_selective_generation, "
                "with_internal_methods, client_method_name, client_name", "".join(
                    wsrc[m:m + 1500] for m in [i for i in range(len(wsrc)) if wsrc.startswith("def add_to_address_allowlist", i)]))
    parts = [{"VERIF_PART": str(i)} for i in range(16)]
    res = ch.run(H, ["closure"], timeout=timeout, env=env, jobs=chk.jobs, partitions=parts)
    ch.settle(chk, H, res, "closure")
    res2 = ch.run(H, ["internal", "rejects", "extended"], timeout=timeout, env=env, jobs=chk.jobs)
    ch.settle(chk, H, res2, "internal/rejects/extended-operations")
    tw = ch.run(H, ["twin"], timeout=120, env=env, jobs=1)[0]
    chk.twin("closure: transitive chain M0 -> M1 -> M2 kept through one RPC is reachable", tw["status"] == "refuted")
    for r in res[:2] + res2:
        chk.sample({"harness": "h16_selective." + r["func"], "partition": r["env"].get("VERIF_PART"),
                    "status": r["status"], "seconds": r["seconds"]})
    c1 = ch.run(H, ["closure"], timeout=timeout, env=dict(env, VERIF_CANARY="skip-enum-only-files", VERIF_PART="5"), jobs=1)[0]
    chk.canary("enum-only files dropped before the enum filter (in-memory mutant)", c1["status"] == "refuted", c1.get("call", c1["status"]))
    c2 = ch.run(H, ["closure"], timeout=timeout, env=dict(env, VERIF_CANARY="no-nested", VERIF_PART="5"), jobs=1)[0]
    chk.canary("enum-typed fields not traversed (in-memory mutant)", c2["status"] == "refuted", c2.get("call", c2["status"]))


def replay(chk, data):
    rep, detail = ch.replay_call(os.path.join(core.VERIF, data["harness"]), data["call"], data.get("env"))
    return f"{data['call']} -> {detail}" if rep else None


if __name__ == "__main__":
    core.run_check("C16", __doc__.strip().splitlines()[0], body, replay)
