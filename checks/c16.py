"""C16 -- selective generation keeps exactly the listed RPCs and a closed, minimal set of types.

CrossHair/z3 over the REAL API.build (all passes) on descriptor sets assembled from symbolic booleans:
for ALL type graphs within the bound (field edges incl. cycles and self edges, nested message/enum, an
enum living in an enum-only file, a message in another file, a resource reference, LRO response and
metadata types), ALL RPC input/output choices and ALL non-empty subsets of allow-listed RPCs (plus a Compute-style API
whose initiating RPC needs the extended-operation polling method of another service, in both declaration orders):
kept messages/enums/services/methods/files == reference reachability closure, no dangling field
type, dependency files untouched; internal mode keeps everything and marks exactly the unlisted RPCs
and their services; unknown / other-version names are rejected.
"""
from __future__ import annotations

import os

import ast
import re

from lib import apis, ch, core, gen

H = os.path.join(core.VERIF, "harness", "h16_selective.py")


def _snake(n):
    return re.sub(r"(?<!^)(?=[A-Z])", "_", n).lower()


def surface_diff(internal):
    """Emitted clients of the Compute-style API (lib.apis.compute_api) under selective generation (concrete AST diff):
    listed = {Addresses.InsertGlobal, GlobalOperations.Get}.  omit mode: only the listed RPCs (and the polling method)
    are methods of the clients; internal mode: every client method of an unlisted RPC -- all its flavours, e.g. the
    `_unary` one of an extended operation -- starts with an underscore and the class carries the prefix `Base`."""
    pkg = "google.example.cp.v1"
    listed = [f"{pkg}.Addresses.InsertGlobal", f"{pkg}.GlobalOperations.Get"]
    cfg = {"publishing": {"library_settings": [{"version": pkg, "python_settings": {"common": {
        "selective_gapic_generation": {"methods": listed, "generate_omitted_as_internal": internal}}}}]}}
    fdp = apis.compute_api()[0].f
    g = gen.generate(apis.compute_api(), parameter="transport=rest", service_yaml=cfg)
    bad, oks = {}, []
    for svc in fdp.service:
        rpcs = {m.name: f"{pkg}.{svc.name}.{m.name}" in listed for m in svc.method}
        sdir = _snake(svc.name)
        try:
            src = g.text(f"services/{sdir}/client.py")
        except Exception:  # noqa: BLE001
            src = None
        key = f"{'internal' if internal else 'omit'}:{svc.name}"
        if src is None:
            if not internal and not any(rpcs.values()):
                oks.append(key + ":not-emitted")
            else:
                bad[key] = f"no client emitted for {svc.name}"
            continue
        if not internal and not any(rpcs.values()):
            bad[key] = f"{svc.name} has no listed RPC but a client is emitted"
            continue
        classes = {n.name: n for n in ast.parse(src).body if isinstance(n, ast.ClassDef)}
        want_cls = ("Base" if internal and not all(rpcs.values()) else "") + svc.name + "Client"
        if want_cls not in classes:
            bad[key + ":class"] = f"client class {want_cls} missing (classes {sorted(classes)})"
            continue
        methods = {f.name for f in classes[want_cls].body if isinstance(f, (ast.FunctionDef, ast.AsyncFunctionDef))}
        for rpc, is_listed in rpcs.items():
            mine = {m for m in methods if re.fullmatch(rf"_?{_snake(rpc)}(_unary)?", m)}
            public = {m for m in mine if not m.startswith("_")}
            k2 = f"{key}.{rpc}"
            if is_listed:
                ok = _snake(rpc) in public and not (mine - public)
            elif internal:
                ok = ("_" + _snake(rpc)) in mine and not public
            else:
                ok = not mine
            if ok:
                oks.append(k2)
            else:
                bad[k2] = (f"{want_cls}: methods of RPC {rpc} ({'listed' if is_listed else 'unlisted'}) are {sorted(mine)}; "
                           f"public ones: {sorted(public)}")
    return oks, bad


def body(chk: core.Check):
    quick = chk.tier == "quick"
    chk.engines.add("CH (CrossHair 0.0.110 + z3), selector-symbolic, realised-untraced")
    timeout = 400 if quick else 3000
    env = {"VERIF_TIER": chk.tier}
    hm = ch.load_module(H, env)
    chk.bound("messages", "M0..M2 (+ nested M0.N, nested enum M0.NE, X/Y in another file, enum E in an enum-only file)")
    chk.bound("cross_edges", 6)
    chk.bound("extra_structure_variants", len(hm.EXTRAS))
    chk.bound("rpcs", "Svc1.A (symbolic in/out), Svc1.B (plain or LRO), Svc2.C; every non-empty allow-list subset")
    chk.bound("crosshair_per_condition_timeout_s", timeout)
    chk.assumptions += [
        "symbolic inputs only select the structure; each feasible combination runs the real API.build once "
        "(path exploration with solver-proved exhaustion: the weakest use of a solver in this framework)",
    ]
    chk.outside += ["that the pruned model renders to an importable library and kept RPCs behave as in the full one",
                    "graphs larger than the bound"]
    for fn in ("Proto.add_to_address_allowlist", "Proto.prune_messages_for_selective_generation",
               "API.enforce_valid_library_settings"):
        src = open(f"{core.REPO}/gapic/schema/api.py").read()
        i = src.index("def " + fn.split(".")[1])
        chk.encoded(f"gapic/schema/api.py: {fn} (+ API.build third pass)", src[i:i + 3000])
    wsrc = open(f"{core.REPO}/gapic/schema/wrappers.py").read()
    chk.encoded("gapic/schema/wrappers.py: *.add_to_address_allowlist, prune_messages_for_selective_generation, "
                "with_internal_methods, client_method_name, client_name", "".join(
                    wsrc[m:m + 1500] for m in [i for i in range(len(wsrc)) if wsrc.startswith("def add_to_address_allowlist", i)]))
    parts = [{"VERIF_PART": str(i)} for i in range(16)]
    res = ch.run(H, ["closure"], timeout=timeout, env=env, jobs=chk.jobs, partitions=parts)
    ch.settle(chk, H, res, "closure")
    res2 = ch.run(H, ["internal", "rejects", "extended"], timeout=timeout, env=env, jobs=chk.jobs)
    ch.settle(chk, H, res2, "internal/rejects/extended-operations")
    tw = ch.run(H, ["twin"], timeout=120, env=env, jobs=1)[0]
    chk.twin("closure: transitive chain M0 -> M1 -> M2 kept through one RPC is reachable", tw["status"] == "refuted")
    for r in res[:2] + res2:
        chk.sample({"harness": "h16_selective." + r["func"], "partition": r["env"].get("VERIF_PART"),
                    "status": r["status"], "seconds": r["seconds"]})
    c1 = ch.run(H, ["closure"], timeout=timeout, env=dict(env, VERIF_CANARY="skip-enum-only-files", VERIF_PART="5"), jobs=1)[0]
    chk.canary("enum-only files dropped before the enum filter (in-memory mutant)", c1["status"] == "refuted", c1.get("call", c1["status"]))
    c2 = ch.run(H, ["closure"], timeout=timeout, env=dict(env, VERIF_CANARY="no-nested", VERIF_PART="5"), jobs=1)[0]
    chk.canary("enum-typed fields not traversed (in-memory mutant)", c2["status"] == "refuted", c2.get("call", c2["status"]))
    # emitted surface of a Compute-style API under both modes (concrete AST diff, labelled as such)
    chk.stubs.append(gen.PANDOC_STUB_NOTE)
    for internal in (False, True):
        oks, bad = surface_diff(internal)
        chk.programs += 1
        for k in oks:
            chk.ok("emitted-surface (concrete)", k)
        for k, text in bad.items():
            chk.violation("surface:" + k, text, {"kind": "surface", "internal": internal, "diff_key": k})


def replay(chk, data):
    if data.get("kind") == "surface":
        _o, bad = surface_diff(data["internal"])
        return bad.get(data["diff_key"])
    rep, detail = ch.replay_call(os.path.join(core.VERIF, data["harness"]), data["call"], data.get("env"))
    return f"{data['call']} -> {detail}" if rep else None


if __name__ == "__main__":
    core.run_check("C16", __doc__.strip().splitlines()[0], body, replay)
