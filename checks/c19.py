"""C19 -- resource path helpers build and parse names as mutual inverses.

Programs (enumerated): resource patterns from a bounded grammar, rendered through the real
templates of /repo's working tree, 10 per API.  Solver-decided (z3 strings/regex, and the
exact-priority executor BSTR): for ALL segment values within the length bound

  O1 build(v) is matched by the emitted regex                                  [RX]
  O2 every admissible parse of build(v) has groups == v (delimiter-free v)     [RX]
  O2x the parse CPython SELECTS has groups == v (incl. trailing ** with '/')   [BSTR]
  O3 p matched with groups g  ==>  build(g) == p                               [RX]
  O4 L(emitted regex) == reference language of the pattern, both inclusions,
     over strings without newline (so a non-matching string parses to {})      [RX]
  O5 wildcard pattern "*" accepts every string                                 [RX]
"""
from __future__ import annotations

import ast
import multiprocessing as mp
import random
import re
import sys
import time

import z3

from lib import bstr, core, gen, rx

VARS = "abcdefgh"
COLL = ["as", "bs", "cs", "ds", "es", "fs"]


# --------------------------------------------------------------------------
# reference reading of a resource pattern (independent of the code under test)
# --------------------------------------------------------------------------
def parse_pattern(p):
    """-> list of ('lit', text) | ('var', name, multi)"""
    toks = []
    i = 0
    lit = ""
    while i < len(p):
        if p[i] == "{":
            j = p.index("}", i)
            inner = p[i + 1:j]
            if lit:
                toks.append(("lit", lit))
                lit = ""
            if inner.endswith("=**"):
                toks.append(("var", inner[:-3], True))
            else:
                toks.append(("var", inner, False))
            i = j + 1
        else:
            lit += p[i]
            i += 1
    if lit:
        toks.append(("lit", lit))
    return toks


def separators(toks):
    seps = {"/"}
    for t in toks:
        if t[0] == "lit":
            seps |= {c for c in t[1] if not c.isalnum()}
    return seps


def grammar(tier):
    pats = []
    # nesting depth 1..4 (quick) / 1..6 (thorough)
    depth = 4 if tier == "quick" else 6
    for k in range(1, depth + 1):
        pats.append("/".join(f"{COLL[i]}/{{{VARS[i]}}}" for i in range(k)))
    # non-slash separators between variables of one segment
    for sep in "-_~.":
        pats.append(f"as/{{a}}{sep}{{b}}")
        pats.append(f"as/{{a}}/bs/{{b}}{sep}{{c}}")
    pats.append("as/{a}-{b}/cs/{c}~{d}")
    pats.append("as/{a}_{b}.{c}")
    # singleton suffix
    pats.append("as/{a}/config")
    pats.append("as/{a}/bs/{b}/settings")
    # trailing multi-segment variable
    pats.append("as/{a=**}")
    pats.append("as/{a}/bs/{b=**}")
    pats.append("as/{a}/bs/{b}/cs/{c=**}")
    pats.append("as/{a}-{b}/cs/{c=**}")
    # identifiers with underscores / digits, camelCase collection ids
    pats.append("projects/{project}/metricDescriptors/{metric_descriptor=**}")
    pats.append("orgs/{org_id}/shelves2/{shelf_2}")
    # no collection literal before the first variable
    pats.append("{a}/bs/{b}")
    pats.append("{a}")
    # wildcard
    pats.append("*")
    if tier == "thorough":
        seps = "-_~."
        for s1 in seps:
            for s2 in seps:
                pats.append(f"as/{{a}}{s1}{{b}}{s2}{{c}}")
                pats.append(f"as/{{a}}{s1}{{b}}/cs/{{c}}{s2}{{d}}")
        for k in range(1, 6):
            base = "/".join(f"{COLL[i]}/{{{VARS[i]}}}" for i in range(k))
            if k <= 3:          # deeper singleton-suffix patterns: z3 does not decide O4b (reference in regex) even bounded
                pats.append(base + "/config")
            pats.append(base + f"/{COLL[k]}/{{{VARS[k]}=**}}")
            for sep in seps:
                pats.append(base + f"/{COLL[k]}/{{{VARS[k]}}}{sep}{{{VARS[k + 1]}}}")
                pats.append(base + f"{sep}{{{VARS[k]}}}")
                pats.append(base + f"{sep}{{{VARS[k]}}}/{COLL[k]}/{{{VARS[k+1]}=**}}")
        for sep in seps:
            pats.append(f"{{a}}{sep}{{b}}")
            pats.append(f"as/{{a}}{sep}{{b}}/settings")
    out = []
    for p in pats:
        if p not in out:
            out.append(p)
    return out


# --------------------------------------------------------------------------
# rendering and extraction
# --------------------------------------------------------------------------
def render_batch(patterns, idx):
    """One API with one resource message per pattern (half of them declared as file-level
    resource_definition); returns the emitted client sources."""
    # a file-level resource definition in a DEPENDENCY file of another package, referenced from a request field
    dep = gen.FileBuilder(f"google/example/shared{idx}/resources.proto", f"google.example.shared{idx}")
    dep.file_resource(f"res.googleapis.com/Dep{idx}", ["deps/{dep}"])
    dep.message("Unused", [("x", "string")])
    fb = gen.FileBuilder(f"google/example/res{idx}/v1/res.proto", f"google.example.res{idx}.v1", deps=[dep.f.name])
    fields = [("rdep", "string", {"ref": f"res.googleapis.com/Dep{idx}"})]
    for i, p in enumerate(patterns):
        rtype = f"res.googleapis.com/Kind{idx}x{i}"
        if i % 3 == 2:
            fb.file_resource(rtype, [p])
        else:
            # every fourth message resource also declares the wildcard as a LATER pattern: the helpers follow the first
            fb.message(f"Kind{idx}x{i}", [("name", "string")], resource=(rtype, [p, "*"] if i % 4 == 1 and p != "*" else [p]))
        fields.append((f"r{i}", "string", {"ref": rtype}))
    fb.message("GetRequest", fields)
    fb.message("Reply", [("x", "string")])
    # a resource that is visible to the service ONLY as the response type of a long-running method
    fb.message("LroOnly", [("name", "string")], resource=(f"res.googleapis.com/Lro{idx}", ["lros/{lro}"]))
    fb.message("LroMeta", [("p", "int32")])
    svc = fb.service("ResSvc")
    fb.method(svc, "Get", "GetRequest", "Reply")
    fb.method(svc, "Run", "Reply", "google.longrunning.Operation", lro=("LroOnly", "LroMeta"))
    g = gen.generate([dep, fb], parameter="transport=grpc", to_generate=[fb.f.name])
    return g.text("services/res_svc/client.py"), g.text("services/res_svc/async_client.py")


def extract_helpers(client_src, cls_name="ResSvcClient"):
    """-> {name: dict(args=[..], fmt=str, regex=str, build_src, parse_src)}; exits inconclusive
    on any shape the translator does not understand."""
    tree = ast.parse(client_src)
    cls = [n for n in tree.body if isinstance(n, ast.ClassDef) and n.name == cls_name]
    if not cls:
        raise core.Inconclusive(f"class {cls_name} not found in emitted client")
    helpers = {}
    fns = {n.name: n for n in cls[0].body if isinstance(n, ast.FunctionDef)}
    for name, fn in fns.items():
        if not name.endswith("_path") or name.startswith("parse_"):
            continue
        pname = "parse_" + name
        if pname not in fns:
            raise core.Inconclusive(f"{name} has no parse_ counterpart")
        body = [s for s in fn.body if not (isinstance(s, ast.Expr) and isinstance(s.value, ast.Constant))]
        ok = (len(body) == 1 and isinstance(body[0], ast.Return)
              and isinstance(body[0].value, ast.Call)
              and isinstance(body[0].value.func, ast.Attribute)
              and body[0].value.func.attr == "format"
              and isinstance(body[0].value.func.value, ast.Constant)
              and not body[0].value.args)
        if not ok:
            raise core.Inconclusive(f"unsupported shape of emitted {name}")
        call = body[0].value
        kw = {}
        for k in call.keywords:
            if not (isinstance(k.value, ast.Name)):
                raise core.Inconclusive(f"{name}: format keyword is not a plain parameter")
            kw[k.arg] = k.value.id
        args = [a.arg for a in fn.args.args]
        pf = fns[pname]
        pbody = [s for s in pf.body if not (isinstance(s, ast.Expr) and isinstance(s.value, ast.Constant))]
        ok = (len(pbody) == 2 and isinstance(pbody[0], ast.Assign)
              and isinstance(pbody[0].value, ast.Call)
              and ast.unparse(pbody[0].value.func) == "re.match"
              and isinstance(pbody[0].value.args[0], ast.Constant)
              and len(pbody[0].value.args) == 2
              and isinstance(pbody[1], ast.Return)
              and ast.unparse(pbody[1].value) == "m.groupdict() if m else {}")
        if not ok:
            raise core.Inconclusive(f"unsupported shape of emitted {pname}")
        # the regex is matched against the parameter itself on the unchanged tree; whatever expression stands there is
        # executed as it is by the exact engine (O2x runs the emitted functions), the regex obligations speak about the
        # regex alone
        helpers[name] = dict(args=args, fmt=call.func.value.value, fmt_kw=kw,
                             regex=pbody[0].value.args[0].value, names=(name, pname),
                             subject=ast.unparse(pbody[0].value.args[1]),
                             build_src=ast.unparse(fn), parse_src=ast.unparse(pf))
    return helpers


def compile_helpers(h):
    ns = {"re": re, "Dict": dict}
    src = h["build_src"].replace("@staticmethod\n", "") + "\n" + h["parse_src"].replace("@staticmethod\n", "")
    exec(compile(ast.parse(src), "emitted", "exec"), ns)
    fns = [v for k, v in ns.items() if callable(v) and k.endswith("_path")]
    build = [v for k, v in ns.items() if k.endswith("_path") and not k.startswith("parse_")][0]
    parse = [v for k, v in ns.items() if k.startswith("parse_")][0]
    return build, parse


# --------------------------------------------------------------------------
# per-pattern solver obligations (run in a worker process)
# --------------------------------------------------------------------------
def z_fmt(fmt, kw, zvars):
    """z3 term of fmt.format(**{k: zvars[kw[k]]}); plain {name} fields only."""
    import string
    parts = []
    for lit, field, spec, conv in string.Formatter().parse(fmt):
        if lit:
            parts.append(z3.StringVal(lit))
        if field is None:
            continue
        if spec or conv or field not in kw:
            raise rx.Unsupported(f"format field {field!r}")
        parts.append(zvars[kw[field]])
    if not parts:
        return z3.StringVal("")
    return parts[0] if len(parts) == 1 else z3.Concat(*parts)


def no_nl(s):
    return z3.InRe(s, z3.Star(rx.DOT))


def lang_nonempty(sol, s, inside, outside):
    """exists newline-free s in `inside` and not in `outside`?  One regex membership."""
    return sol.check(z3.InRe(s, z3.Intersect(z3.Star(rx.DOT), inside, z3.Complement(outside))))


class _SkipO2(Exception):
    pass


class _SkipRX(Exception):
    pass


RX_MAX_VARS = 5


def work(task):
    pattern, h, xbound, timeout = task["pattern"], task["h"], task["X"], task["timeout"]
    nbound = task["N"].get(len([t for t in parse_pattern(pattern) if t[0] == "var"]), 2)
    res = []  # (kind, status, seconds, cex)
    toks = parse_pattern(pattern)
    vars_ = [t for t in toks if t[0] == "var"]
    names = [t[1] for t in vars_]
    seps = separators(toks)
    sol = rx.Solver(timeout)

    def rec(kind, status, t0, cex=None):
        res.append((kind, status, round(time.time() - t0, 3), cex))

    try:
        if pattern == "*":
            t0 = time.time()
            s = z3.String("s")
            r, m = lang_nonempty(sol, s, z3.Star(rx.DOT), rx.match_language(h["regex"]))
            rec("O5", {"unsat": "ok", "sat": "cex"}.get(r, "unknown"), t0,
                {"kind": "language", "path": rx.py_string(m, s)} if m else None)
            t0 = time.time()
            rec("O0", "ok" if (h["args"] == [] and h["fmt"] == "*") else "cex", t0,
                {"kind": "shape", "detail": f"args={h['args']} fmt={h['fmt']!r}"})
            return pattern, res, sol.seconds, sol.queries

        # O0 (concrete): declared order of parameters and format text
        t0 = time.time()
        exp_fmt = "".join(t[1] if t[0] == "lit" else "{" + t[1] + "}" for t in toks)
        shape_ok = (h["args"] == names and h["fmt"] == exp_fmt
                    and all(h["fmt_kw"].get(n) == n for n in names) and len(h["fmt_kw"]) == len(names))
        rec("O0", "ok" if shape_ok else "cex", t0,
            {"kind": "shape", "detail": f"args={h['args']} fmt={h['fmt']!r} expected {names} {exp_fmt!r}"})
        if not shape_ok:
            return pattern, res, sol.seconds, sol.queries

        bad_all = z3.Union(*[z3.Re(c) for c in sorted(seps | {"\n"})])
        bad_multi = z3.Union(*[z3.Re(c) for c in sorted((seps - {"/"}) | {"\n"})])
        ok_single = z3.Plus(z3.Diff(rx.ANYC, bad_all))
        ok_multi = z3.Plus(z3.Diff(rx.ANYC, bad_multi))
        zv = {n: z3.String(f"v_{n}") for n in names}
        valid = []
        for (_, n, multi) in vars_:
            valid.append(z3.InRe(zv[n], ok_multi if multi else ok_single))
            valid.append(z3.Length(zv[n]) <= nbound)
        built = z_fmt(h["fmt"], h["fmt_kw"], zv)
        L = rx.match_language(h["regex"])

        # vacuity twin: the value domain is inhabited
        t0 = time.time()
        r, m = sol.check(*valid)
        rec("twin", "ok" if r == "sat" else "vacuous", t0)

        # patterns with more than RX_MAX_VARS variables: z3's sequence solver does not decide O1/O3/O4 within the limits even at
        # value length 1; they are decided by the exact engine (O2x on the emitted functions) alone, and this is recorded
        if len(names) > RX_MAX_VARS:
            res.append(("rx-skipped", "info", 0.0, {"variables": len(names)}))
            raise _SkipRX()

        # O1
        t0 = time.time()
        r, m = sol.check(*valid, z3.Not(z3.InRe(built, L)))
        kind1 = "O1"
        if r not in ("unsat", "sat") and nbound > 1:
            # deep patterns: the query does not finish at the requested value length; retry at length 1 and say so
            valid1 = [c for (_, n, multi) in vars_ for c in (z3.InRe(zv[n], ok_multi if multi else ok_single), z3.Length(zv[n]) <= 1)]
            r, m = sol.check(*valid1, z3.Not(z3.InRe(built, L)))
            kind1 = "O1(values<=1)"
        rec(kind1, {"unsat": "ok", "sat": "cex"}.get(r, "unknown"), t0,
            {"kind": "roundtrip", "values": {n: rx.py_string(m, zv[n]) for n in names}} if m else None)

        # O2: all admissible parses agree with v -- delimiter-free values only; attempted for
        # patterns with <= 4 variables (beyond that the word-equation query does not finish and
        # only the exact engine O2x is claimed)
        t0 = time.time()
        if len(names) > 4:
            raise _SkipO2()
        valid_df = []
        for (_, n, multi) in vars_:
            valid_df.append(z3.InRe(zv[n], ok_single))
            valid_df.append(z3.Length(zv[n]) <= nbound)
        P = rx.Parse(h["regex"], built, "a")
        if set(P.groups) != set(names):
            rec("O2", "cex", t0, {"kind": "shape", "detail": f"regex groups {sorted(P.groups)} != {names}"})
        else:
            r, m = sol.check(*valid_df, *P.cons, z3.Or(*[P.groups[n] != zv[n] for n in names]))
            cex = {"kind": "roundtrip", "values": {n: rx.py_string(m, zv[n]) for n in names}} if m else None
            st = {"unsat": "ok", "sat": "cex"}.get(r, "unknown")
            if st == "cex" and concrete_violation(h, pattern, cex) is None:
                # an admissible parse that CPython does not select: the sufficient condition fails,
                # the exact engine (O2x) decides at its own bound
                st = "fallback"
            rec("O2", st, t0, cex)

    except _SkipO2:
        pass
    except _SkipRX:
        try:
            t0 = time.time()
            status, cex, stats = bstr_roundtrip(h, toks, seps, xbound)
            rec("O2x", status, t0, cex)
            res.append(("O2x-stats", "info", 0.0, stats))
        except (rx.Unsupported, bstr.Unsupported) as e:
            res.append(("encode", "unknown", 0.0, {"detail": f"{type(e).__name__}: {e}"}))
        return pattern, res, sol.seconds, sol.queries
    try:
        # O3: any matched path rebuilds to itself
        t0 = time.time()
        p = z3.String("p")
        P2 = rx.Parse(h["regex"], p, "b")
        rebuilt = z_fmt(h["fmt"], h["fmt_kw"], {n: P2.groups[n] for n in names}) if set(P2.groups) == set(names) else None
        if rebuilt is not None:
            r, m = sol.check(no_nl(p), z3.Length(p) <= 3 * nbound + len(pattern), *P2.cons, rebuilt != p)
            rec("O3", {"unsat": "ok", "sat": "cex"}.get(r, "unknown"), t0,
                {"kind": "language", "path": rx.py_string(m, p)} if m else None)

        # O4: language equality with the reference, over newline-free strings
        ne = z3.Plus(rx.DOT)
        ref = rx.concat([z3.Re(t[1]) if t[0] == "lit" else ne for t in toks])
        s = z3.String("s")
        kbound = len(pattern) + 2 * len(names)
        for kind4, (ins, outs) in (("O4a", (L, ref)), ("O4b", (ref, L))):
            t0 = time.time()
            r, m = lang_nonempty(sol, s, ins, outs)
            if r not in ("unsat", "sat"):
                # the unbounded difference does not finish for deep patterns: bounded length, stated in the kind
                r, m = sol.check(z3.InRe(s, z3.Intersect(z3.Star(rx.DOT), ins, z3.Complement(outs))), z3.Length(s) <= kbound)
                kind4 = f"{kind4}(|s|<={kbound})"
            rec(kind4, {"unsat": "ok", "sat": "cex"}.get(r, "unknown"), t0,
                {"kind": "language", "path": rx.py_string(m, s)} if m else None)

        # O2x: exact selected parse, BSTR (covers '/' inside the trailing ** variable)
        t0 = time.time()
        status, cex, stats = bstr_roundtrip(h, toks, seps, xbound)
        rec("O2x", status, t0, cex)
        res.append(("O2x-stats", "info", 0.0, stats))
    except (rx.Unsupported, bstr.Unsupported) as e:
        res.append(("encode", "unknown", 0.0, {"detail": f"{type(e).__name__}: {e}"}))
    return pattern, res, sol.seconds, sol.queries


def bstr_roundtrip(h, toks, seps, xbound, regex=None):
    """For every length vector within the bound: CPython-selected groups == v."""
    import itertools
    vars_ = [t for t in toks if t[0] == "var"]
    names = [t[1] for t in vars_]
    if regex is None:
        # the REAL emitted helpers, executed symbolically (format call, re.match through the shim, whatever else they do)
        build_fn, _ = bstr.load_function("emitted:client.py", h["names"][0], {}, source=h["build_src"])
        parse_fn, _ = bstr.load_function("emitted:client.py", h["names"][1], {}, source=h["parse_src"])
    else:
        pat = bstr.SymPattern(regex)          # canaries: a mutated regex in place of the emitted one
    # keep the number of length vectors small: per-variable max length shrinks with arity
    per = xbound.get(len(vars_), 2)
    lens = []
    for (_, n, multi) in vars_:
        lens.append(range(1, (per + 2 if multi else per) + 1))
    leaves = 0
    checks = 0
    vectors = 0
    for lv in itertools.product(*lens):
        vectors += 1
        vals = {n: bstr.fresh_string(f"v{n}", l) for n, l in zip(names, lv)}
        base = []
        for (_, n, multi) in vars_:
            bad = sorted(ord(c) for c in ((seps - {"/"}) if multi else seps) | {"\n"})
            for ch in vals[n].c:
                base.append(z3.And(ch >= 32, ch <= 126, *[ch != b for b in bad]))

        def run():
            if regex is None:
                return parse_fn(build_fn(**vals))
            path = bstr.sym_format(h["fmt"], (), {k: vals[v] for k, v in h["fmt_kw"].items()})
            m = pat.match(path)
            return m.groupdict() if m is not None else {}
        for c, gd in bstr.explore(run, base):
            leaves += 1
            if not gd:
                mdl = c.model()
                return "cex", {"kind": "roundtrip",
                               "values": {n: bstr.model_string(mdl, vals[n]) for n in names}}, None
            phi = bstr.b_and([bstr.eq_chars(gd[n].c, vals[n].c) if gd.get(n) is not None else False
                              for n in names])
            ok, mdl = c.valid(phi)
            checks = c.checks
            if not ok:
                return "cex", {"kind": "roundtrip",
                               "values": {n: bstr.model_string(mdl, vals[n]) for n in names}}, None
    return "ok", None, {"length_vectors": vectors, "leaves": leaves, "per_var_max_len": per}


# --------------------------------------------------------------------------
# concrete replay against the emitted functions
# --------------------------------------------------------------------------
def concrete_violation(h, pattern, cex):
    """-> text describing the failure if the counterexample reproduces on the emitted code."""
    build, parse = compile_helpers(h)
    toks = parse_pattern(pattern)
    names = [t[1] for t in toks if t[0] == "var"]
    if cex["kind"] == "shape":
        return cex["detail"]
    if cex["kind"] == "roundtrip":
        v = cex["values"]
        path = build(**v)
        got = parse(path)
        if got != v:
            return f"parse(build({v})) = {got} for pattern {pattern!r} (path {path!r})"
        if build(**got) != path:
            return f"build(parse(p)) != p for p={path!r}"
        return None
    if cex["kind"] == "language":
        p = cex["path"]
        got = parse(p)
        # reference: does p match the pattern (literals exact, holes non-empty)?
        ref = "^" + "".join(re.escape(t[1]) if t[0] == "lit" else "(?s:.+)" for t in toks) + r"\Z"
        if pattern == "*":
            return None if re.match(h["regex"], p) else f"wildcard regex rejects {p!r}"
        matches_ref = re.match(ref, p) is not None
        if got and not matches_ref:
            return f"{p!r} does not match pattern {pattern!r} but parses to {got}"
        if not got and matches_ref:
            return f"{p!r} matches pattern {pattern!r} but parses to {{}}"
        if got and build(**got) != p:
            return f"build(parse({p!r})) = {build(**got)!r} for pattern {pattern!r}"
        return None
    return None


def replay(chk, data):
    if data["cex"].get("kind") == "missing":
        client, _ = render_batch(data["cex"]["batch"], data["cex"]["idx"])
        hs = extract_helpers(client)
        return None if data["cex"]["helper"] in hs else data["text"]
    client, _ = render_batch([data["pattern"]], 0)
    hs = extract_helpers(client)
    h = [v for k, v in hs.items() if not k.startswith("common_") and not k.startswith("lro") and not k.startswith("dep")][0]
    return concrete_violation(h, data["pattern"], data["cex"])


# --------------------------------------------------------------------------
def translator_validation(chk, helpers_by_pattern, rnd):
    bad = 0
    n = 0
    for pattern, h in helpers_by_pattern.items():
        if pattern == "*":
            continue
        toks = parse_pattern(pattern)
        names = [t[1] for t in toks if t[0] == "var"]
        build, parse = compile_helpers(h)
        samples = []
        for _ in range(6):
            v = {k: "".join(rnd.choice("ab/-_~.x\n") for _ in range(rnd.randint(0, 3))) for k in names}
            samples.append(build(**v))
        samples += [s[:-1] for s in samples if s] + [s + "\n" for s in samples[:2]]
        bad += len(rx.validate_translation(h["regex"], samples))
        n += len(samples)
        # BSTR matcher vs CPython on concrete strings (groups too)
        pat = bstr.SymPattern(h["regex"])
        for s in samples:
            real = re.match(h["regex"], s)
            for c, m in bstr.explore(lambda: pat.match(bstr.S(s))):
                if (m is None) != (real is None):
                    bad += 1
                elif m is not None:
                    gd = {k: v.concrete() for k, v in m.groupdict().items()}
                    if gd != real.groupdict():
                        bad += 1
            n += 1
    return n, bad


def body(chk: core.Check):
    tier = chk.tier
    N = {1: 4, 2: 4, 3: 3, 4: 2} if tier == "quick" else {1: 8, 2: 6, 3: 4, 4: 2}
    X = {1: 6, 2: 4, 3: 3, 4: 3, 5: 2, 6: 2} if tier == "quick" else {1: 8, 2: 6, 3: 4, 4: 3, 5: 3, 6: 2}
    timeout = 60 if tier == "quick" else 120
    chk.engines |= {"RX (z3 seq/regex)", "BSTR (exact backtracking order, z3 ints)"}
    chk.bound("segment_value_length_RX_by_number_of_variables", {**N, "more": 2})
    chk.bound("segment_value_length_BSTR_by_number_of_variables", {**X, "note": "the ** variable gets +2"})
    chk.bound("path_length_O3", "3*N + len(pattern)")
    chk.bound("solver_timeout_s", timeout)
    chk.bound("rx_obligations_up_to_variables", f"{RX_MAX_VARS} (deeper patterns: exact engine O2x only)")
    chk.bound("fallbacks_on_unknown", "O1 at value length 1; O4 at |s| <= len(pattern) + 2*variables (the kind of the obligation says so)")
    chk.assumptions += [
        "segment values are non-empty and contain neither a separator of the pattern nor a newline "
        "('/' allowed in the trailing ** variable)",
        "O3/O4 range over newline-free strings (a final newline is accepted by `$`: real behaviour, outside the claim)",
        "BSTR value alphabet: printable ASCII 32..126",
    ]
    chk.outside += ["segment values longer than the bound", "empty or newline-containing segment values",
                    "patterns outside the enumerated grammar"]
    pats = grammar(tier)
    chk.bound("patterns", len(pats))
    # render, 10 patterns per API (parallel)
    batches = [pats[i:i + 10] for i in range(0, len(pats), 10)]
    with mp.Pool(min(chk.jobs, len(batches))) as pool:
        rendered = pool.starmap(render_batch, [(b, i) for i, b in enumerate(batches)])
    chk.programs = len(batches)
    helpers_by_pattern = {}
    common = None
    for bi, (b, (client, aclient)) in enumerate(zip(batches, rendered)):
        hs = extract_helpers(client)
        own = {k: v for k, v in hs.items() if not k.startswith("common_")}
        # every resource visible to the service must have its pair of helpers
        lro_name = f"lro{bi}_path"
        if lro_name in own:
            chk.ok("helpers-offered", f"batch{bi}:LRO-response-only resource")
            if bi == 0:
                helpers_by_pattern["lros/{lro}"] = own[lro_name]
            del own[lro_name]
        else:
            chk.violation("helper-missing:lro-response-resource",
                          f"batch {bi}: no {lro_name} / parse_{lro_name} although the resource is the response type of an LRO method",
                          {"pattern": "lros/{lro}", "cex": {"kind": "missing", "helper": lro_name, "batch": list(b), "idx": bi}})
        dep_name = f"dep{bi}_path"
        if dep_name in own:
            chk.ok("helpers-offered", f"batch{bi}:file-level resource of a dependency package")
            del own[dep_name]
        else:
            chk.violation("helper-missing:dependency-file-resource",
                          f"batch {bi}: no {dep_name} / parse_{dep_name} although a request field references the resource "
                          "defined in an imported file of another package",
                          {"pattern": "deps/{dep}", "cex": {"kind": "missing", "helper": dep_name, "batch": list(b), "idx": bi}})
        for i, p in enumerate(b):
            name = f"kind{bi}x{i}_path"
            if name not in own:
                chk.violation(f"helper-missing:{p}", f"batch {bi}: no helper {name} for the visible resource pattern {p!r}",
                              {"pattern": p, "cex": {"kind": "missing", "helper": name, "batch": list(b), "idx": bi}})
                continue
            helpers_by_pattern[p] = own[name]
        if len(own) > len(b):
            raise core.Inconclusive(f"batch {bi}: unexpected extra helpers {sorted(set(own) - {f'kind{bi}x{i}_path' for i in range(len(b))})}")
        # async client must alias the sync helpers
        for name in hs:
            for nm in (name, "parse_" + name):
                if not re.search(rf"^\s+{nm} = staticmethod\(ResSvcClient\.{nm}\)$", aclient, re.M):
                    raise core.Inconclusive(f"async client does not alias {nm}")
        common = {k: v for k, v in hs.items() if k.startswith("common_")}
    # common resources: pattern is read from the schema, independently of the emitted regex
    from gapic.schema import wrappers
    for rtype, cr in wrappers.Service.common_resources.items() if hasattr(wrappers.Service, "common_resources") else []:
        pass
    common_patterns = {
        "common_billing_account_path": "billingAccounts/{billing_account}",
        "common_folder_path": "folders/{folder}",
        "common_organization_path": "organizations/{organization}",
        "common_project_path": "projects/{project}",
        "common_location_path": "projects/{project}/locations/{location}",
    }
    if set(common) != set(common_patterns):
        chk.violation("common-resources-set", f"emitted common helpers {sorted(common)}", {"cex": {"kind": "shape"}})
    for name, p in common_patterns.items():
        if name in common:
            helpers_by_pattern["common:" + p] = common[name]
    src = open(f"{core.REPO}/gapic/schema/wrappers.py").read()
    i = src.index("def path_regex_str")
    chk.encoded("gapic/schema/wrappers.py:MessageType.path_regex_str (via emitted regex literals)", src[i:i + 1500])
    tmpl = open(f"{core.REPO}/gapic/templates/%namespace/%name_%version/%sub/services/%service/client.py.j2").read()
    i = tmpl.index("_path(")
    chk.encoded("client.py.j2: <x>_path / parse_<x>_path (emitted, read back with ast)", tmpl[i:i + 2500])

    # translator validation (Serval style)
    rnd = random.Random(chk.seed)
    n, bad = translator_validation(chk, {k.split(":", 1)[-1]: v for k, v in helpers_by_pattern.items()}, rnd)
    chk.extra["translator_validation"] = {"concrete_strings": n, "disagreements": bad}
    if bad:
        raise core.Inconclusive(f"translator validation: {bad} disagreements with CPython re")

    tasks = [dict(pattern=k.split(":", 1)[-1], h=h, N=N, X=X, timeout=timeout)
             for k, h in helpers_by_pattern.items()]
    with mp.Pool(chk.jobs) as pool:
        results = pool.map(work, tasks, chunksize=1)
    by_pat = {t["pattern"]: t["h"] for t in tasks}
    for pattern, res, secs, queries in results:
        for kind, status, sec, cex in res:
            if kind == "rx-skipped":
                chk.extra.setdefault("patterns_decided_by_the_exact_engine_only", []).append(pattern)
                continue
            if status == "info":
                chk.sample({"pattern": pattern, "bstr": cex}, limit=4)
                continue
            if kind == "twin":
                if status != "ok":
                    chk.twin(f"value domain of {pattern}", False)
                continue
            if status == "ok":
                chk.ok(kind, pattern, sec)
            elif status == "fallback":
                if not any(r[0] == "O2x" and r[1] == "ok" for r in res):
                    chk.fail_inconclusive(f"O2 not unique for {pattern!r} and exact engine did not confirm")
                chk.extra.setdefault("O2_decided_by_exact_engine_only", []).append(pattern)
            elif status == "cex":
                text = concrete_violation(by_pat[pattern], pattern, cex)
                if text:
                    chk.violation(f"pattern={pattern}", f"[{kind}] {text}", {"pattern": pattern, "cex": cex})
                else:
                    chk.fail_inconclusive(f"{kind} counterexample for {pattern!r} did not replay: {cex}")
            else:
                chk.fail_inconclusive(f"{kind} {status} for {pattern!r}: {cex}")
        h = by_pat[pattern]
        chk.sample({"pattern": pattern, "emitted_format": h["fmt"], "emitted_regex": h["regex"],
                    "obligations": [r[0] for r in res if r[1] == "ok"]})
    chk.twin("value domains inhabited (per pattern)", True)

    # sensitivity canaries: in-memory mutants of the emitted regex must be refuted
    p = "as/{a}/bs/{b}"
    h = dict(helpers_by_pattern[p])
    toks = parse_pattern(p)
    st, cex, _ = bstr_roundtrip(h, toks, separators(toks), X, regex=h["regex"].rstrip("$"))
    chk.canary("path regex without the final $ (BSTR exact parse)", st == "cex", str(cex))
    h2 = dict(h)
    h2["regex"] = h["regex"].replace("/bs/", "/bs")
    _, res, _, _ = work(dict(pattern=p, h=h2, N=N, X=X, timeout=timeout))
    chk.canary("path regex with a dropped literal '/' (RX O1/O4)",
               any(r[1] == "cex" for r in res), str([r[0] for r in res if r[1] == "cex"]))


if __name__ == "__main__":
    core.run_check("C19", __doc__.strip().splitlines()[0], body, replay)
