"""Shared driver for the checks that run harness/h_client.py over the emitted client methods."""
from __future__ import annotations

import os

from lib import apis, ch, core, emitted, gen

HARNESS = os.path.join(core.VERIF, "harness", "h_client.py")
TEMPL = "gapic/templates/%namespace/%name_%version/%sub/services/%service/"


def syntax_errors(g, everything=False):
    """emitted .py files of a rendered program that CPython cannot compile (concrete): {file: message}.
    Default: the library package only (what the harness lifts from); everything=True adds samples, tests, scripts."""
    bad = {}
    for name, text in sorted(g.files.items()):
        if name.endswith(".py") and (everything or name.startswith("google/")):
            try:
                compile(text, name, "exec", dont_inherit=True)
            except SyntaxError as e:
                bad[name] = f"{name}:{e.lineno}: {e.msg}: {(e.text or '').strip()!r}"
    return bad


def render(chk, everything=False):
    g = gen.generate(apis.client_api(), parameter="transport=grpc+rest", service_yaml=apis.CLIENT_SERVICE_YAML)
    chk.programs += 1
    chk.stubs.append(gen.PANDOC_STUB_NOTE)
    # the harness lifts methods out of these files: a file that does not compile is a (concrete) violation of every
    # property observed through the emitted client, reported as such instead of as a harness error
    bad = syntax_errors(g, everything)
    for name, msg in bad.items():
        chk.violation(f"emitted-syntax:{name}", "the emitted module does not compile: " + msg,
                      {"kind": "emitted-syntax", "harness": "harness/h_client.py", "file": name})
    if bad:
        raise core.Inconclusive("emitted client code does not compile; the symbolic phase cannot run")
    chk.ok("emitted-modules-compile", "client_api", n=1)
    return g


def common(chk):
    chk.engines.add("CH (CrossHair 0.0.110 + z3), emitted-on-fakes, selector-symbolic")
    chk.stubs += [
        "lib/fakes.FakeMsg message stand-ins built from the API's own descriptors (proto-plus contract: "
        "copy/dict/None construction, auto-vivified sub-messages, `in` = explicit presence, falsy defaults, "
        "None assignment = unset)",
        "lib/fakes.FakeTransport/Recorder in place of transport._wrapped_methods (records request, retry, timeout, metadata)",
        "gapic_v1.routing_header.to_grpc_metadata replaced by a recorder of its argument (URL-encoding is api_core's)",
        "uuid.uuid4 returns fresh recognisable tokens; google.api_core.operation(_async).from_gapic records its arguments",
    ]
    chk.assumptions += [
        "string/list/dict values are concrete menu entries chosen by symbolic selectors (CrossHair's symbolic str "
        "model is unreliable, DESIGN.md section 4); presence bits, request kind and selectors are symbolic",
        "comparison is on the wire normal form (lib/emitted.wire): default-valued fields without presence and empty "
        "repeated/map fields are indistinguishable from unset, keys are the original proto field names",
    ]
    chk.outside += ["everything below transport._wrapped_methods (serialisation, channel, HTTP)",
                    "values outside the menus"]


def encode_sources(chk, g, methods):
    ec = emitted.EmittedClient(g.outdir, [fb.f for fb in apis.client_api()], "google.example.cl_v1", "library")
    for m in methods:
        chk.encoded(f"emitted client.py: LibraryClient.{m}", ec.method_source("client", "LibraryClient", m))
        chk.encoded(f"emitted async_client.py: LibraryAsyncClient.{m}", ec.method_source("async_client", "LibraryAsyncClient", m))
    for t in ("_client_macros.j2", "_shared_macros.j2", "async_client.py.j2"):
        chk.encoded(TEMPL + t, open(os.path.join(core.REPO, TEMPL + t)).read())
    return ec


KIND_PARTS = [{"VERIF_PART_KIND": str(i)} for i in range(3)]


def run_funcs(chk, g, funcs, kind, timeout, twins=(), canaries=(), partitions=None):
    """canaries: list of (env value of VERIF_CANARY, function expected to be refuted, description)"""
    env = {"VERIF_EMITTED": g.outdir}
    res = ch.run(HARNESS, list(funcs), timeout=timeout, env=env, jobs=chk.jobs, partitions=partitions)
    res += ch.run(HARNESS, [t for t, _ in twins], timeout=timeout, env=env, jobs=chk.jobs)
    tw = {t for t, _ in twins}
    for t, desc in twins:
        r = [x for x in res if x["func"] == t][0]
        chk.twin(desc, r["status"] == "refuted")
    ch.settle(chk, HARNESS, [r for r in res if r["func"] not in tw], kind)
    for r in res:
        if r["func"] not in tw:
            chk.sample({"harness": "h_client." + r["func"], "status": r["status"], "seconds": r["seconds"]})
    if canaries:
        cres = []
        import concurrent.futures as cf
        with cf.ThreadPoolExecutor(max_workers=chk.jobs) as ex:
            futs = [(c, ex.submit(ch.run, HARNESS, [c[1]], timeout, dict(env, VERIF_CANARY=c[0]), 1)) for c in canaries]
            for c, f in futs:
                r = f.result()[0]
                chk.canary(c[2], r["status"] == "refuted", r.get("call", r["status"]))


def replay(chk, data):
    g = gen.generate(apis.client_api(), parameter="transport=grpc+rest", service_yaml=apis.CLIENT_SERVICE_YAML)
    if data.get("kind") == "emitted-syntax":
        return syntax_errors(g, True).get(data["file"])
    env = dict(data.get("env") or {})
    env["VERIF_EMITTED"] = g.outdir
    rep, detail = ch.replay_call(os.path.join(core.VERIF, data["harness"]), data["call"], env)
    return f"{data['call']} -> {detail}" if rep else None
