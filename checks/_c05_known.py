"""Concrete replay of finding F11 (C05) against the REAL emitted package under real proto-plus: the bytes the sync and the
asyncio client hand to the transport for retag_book(tags=[]) (signature "book.name,book.tags", empty list for the dotted
repeated leaf) against the bytes of the explicit request RetagBookRequest(book=Tagged(tags=[])).
usage: _c05_known.py <emitted-outdir>   -> one JSON line {"sync": hex, "async": hex, "explicit": hex}"""
import asyncio
import json
import sys

sys.path.insert(0, sys.argv[1])
from google.auth.credentials import AnonymousCredentials  # noqa: E402
import google.example.cl_v1 as lib  # noqa: E402
from google.example.cl_v1.types import library  # noqa: E402

ser = library.RetagBookRequest.serialize
out = {"explicit": ser(library.RetagBookRequest(book=library.Tagged(tags=[]))).hex()}
sc = lib.LibraryClient(credentials=AnonymousCredentials())
sent = []
for stub in list(sc._transport._wrapped_methods):
    sc._transport._wrapped_methods[stub] = lambda request, **kw: sent.append(request) or library.Book()
sc.retag_book(tags=[])
out["sync"] = ser(sent[-1]).hex()


async def main():
    ac = lib.LibraryAsyncClient(credentials=AnonymousCredentials())
    tr = ac._client._transport

    async def fake(request, **kw):
        sent.append(request)
        return library.Book()
    for stub in list(tr._wrapped_methods):
        tr._wrapped_methods[stub] = fake
    await ac.retag_book(tags=[])
    out["async"] = ser(sent[-1]).hex()

asyncio.run(main())
print(json.dumps(out))
