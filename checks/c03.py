"""C03 -- gRPC calls reach the right RPC with the caller's request and return the reply (client layer).

Solver part (CrossHair/z3 on the emitted sync+asyncio client methods, lifted unmodified): for ALL request
kinds (message / dict / None) and field presence patterns, exactly one call is made, on
_wrapped_methods[transport.<rpc>] of the RIGHT rpc, with the equivalent message, the caller's
retry/timeout, and metadata extended only by the routing header; the reply is returned unchanged
(None for void; pager / operation future wiring for paged and LRO methods); sync == async.
Concrete part (table diff, not a solver result): every emitted gRPC stub property -- the one the
client method dispatches to -- names '/<package>.<Service>/<Method>' with the declared streaming
arity and the (de)serializers of the declared types; base transport wraps the same attributes.
"""
from __future__ import annotations

import ast
import keyword
import re

from checks import _client
from lib import apis, ch, core


def snake(name):
    return re.sub(r"(?<!^)(?=[A-Z])", "_", name).lower()


def stub_table(src, cls_suffix):
    tree = ast.parse(src)
    cls = [n for n in tree.body if isinstance(n, ast.ClassDef) and n.name.endswith(cls_suffix)]
    if len(cls) != 1:
        raise core.Inconclusive(f"transport class *{cls_suffix} not found")
    table = {}
    for fn in cls[0].body:
        if not isinstance(fn, ast.FunctionDef):
            continue
        for node in ast.walk(fn):
            if isinstance(node, ast.Call) and isinstance(node.func, ast.Attribute) and \
                    node.func.attr in ("unary_unary", "unary_stream", "stream_unary", "stream_stream") and \
                    node.args and isinstance(node.args[0], ast.Constant):
                kw = {k.arg: ast.unparse(k.value) for k in node.keywords}
                table[fn.name] = (node.func.attr, node.args[0].value, kw.get("request_serializer"),
                                  kw.get("response_deserializer"))
    return table


def stub_cache_keys(src, cls_suffix):
    """-> {property name: sorted list of the constant keys it uses on self._stubs}: the stub cache is shared by all
    properties of a transport, so two properties using one key hand out each other's stub"""
    tree = ast.parse(src)
    cls = [n for n in tree.body if isinstance(n, ast.ClassDef) and n.name.endswith(cls_suffix)]
    if len(cls) != 1:
        raise core.Inconclusive(f"transport class *{cls_suffix} not found")
    out = {}
    for fn in cls[0].body:
        if not isinstance(fn, ast.FunctionDef):
            continue
        keys = set()
        for node in ast.walk(fn):
            if isinstance(node, ast.Subscript) and ast.unparse(node.value) == "self._stubs" and isinstance(node.slice, ast.Constant):
                keys.add(node.slice.value)
            if isinstance(node, ast.Compare) and len(node.comparators) == 1 and ast.unparse(node.comparators[0]) == "self._stubs" \
                    and isinstance(node.left, ast.Constant):
                keys.add(node.left.value)
        if keys:
            out[fn.name] = sorted(keys)
    return out


def stub_cache_problems(src, cls_suffix):
    keys = stub_cache_keys(src, cls_suffix)
    bad = {}
    owner = {}
    for prop, ks in keys.items():
        if len(ks) != 1:
            bad[prop] = f"property {prop} uses the stub-cache keys {ks} (expected exactly one)"
            continue
        if ks[0] in owner:
            bad[prop] = f"properties {owner[ks[0]]} and {prop} share the stub-cache key {ks[0]!r}"
        owner.setdefault(ks[0], prop)
    return keys, bad


def shared_state(src):
    """-> [(class, attribute, rebound_in_init)] for class-level attributes initialised with a mutable literal"""
    out = []
    for cls in ast.parse(src).body:
        if not isinstance(cls, ast.ClassDef):
            continue
        mut = []
        for st in cls.body:
            tgt = val = None
            if isinstance(st, ast.AnnAssign) and isinstance(st.target, ast.Name):
                tgt, val = st.target.id, st.value
            elif isinstance(st, ast.Assign) and len(st.targets) == 1 and isinstance(st.targets[0], ast.Name):
                tgt, val = st.targets[0].id, st.value
            if tgt and isinstance(val, (ast.Dict, ast.List, ast.Set)) or (
                    tgt and isinstance(val, ast.Call) and isinstance(val.func, ast.Name) and val.func.id in ("dict", "list", "set")):
                mut.append(tgt)
        init = [f for f in cls.body if isinstance(f, ast.FunctionDef) and f.name == "__init__"]
        rebound = set()
        for f in init:
            for node in ast.walk(f):
                t = None
                if isinstance(node, ast.AnnAssign):
                    t = node.target
                elif isinstance(node, ast.Assign):
                    t = node.targets[0]
                if isinstance(t, ast.Attribute) and isinstance(t.value, ast.Name) and t.value.id == "self":
                    rebound.add(t.attr)
        for a in mut:
            if init:
                out.append((cls.name, a, a in rebound))
    return out


def table_diff(g):
    """-> (oks, mismatches{key: text}, tables) for the emitted gRPC stub tables of the rendered API"""
    oks, bad = [], {}
    # ---- concrete table diff -------------------------------------------------------------
    fdp = apis.client_api()[0].f
    svc = fdp.service[0]
    pkg = fdp.package
    client_src = g.text("services/library/client.py")
    aclient_src = g.text("services/library/async_client.py")
    base_src = g.text("services/library/transports/base.py")
    tables = {"grpc": stub_table(g.text("services/library/transports/grpc.py"), "GrpcTransport"),
              "grpc_asyncio": stub_table(g.text("services/library/transports/grpc_asyncio.py"), "GrpcAsyncIOTransport")}
    for m in svc.method:
        cm = snake(m.name) + ("_" if keyword.iskeyword(snake(m.name)) else "")
        arity = ("stream" if m.client_streaming else "unary") + "_" + ("stream" if m.server_streaming else "unary")
        path = f"/{pkg}.{svc.name}/{m.name}"
        in_t, out_t = m.input_type.split(".")[-1], m.output_type.split(".")[-1]
        in_own = m.input_type.startswith("." + pkg + ".")
        out_own = m.output_type.startswith("." + pkg + ".")
        # which transport attribute does the emitted client method dispatch through?
        for which, src in (("client", client_src), ("async_client", aclient_src)):
            mm = re.search(rf"def {cm}\(self.*?_wrapped_methods\[self\.(?:_client\.)?_transport\.(\w+)\]", src, re.S)
            if not mm:
                raise core.Inconclusive(f"dispatch expression of {which}.{cm} not found")
            attr = mm.group(1)
            for tname, table in tables.items():
                if (which == "client") != (tname == "grpc"):
                    continue
                got = table.get(attr)
                exp_ser = f"{in_t}." + ("serialize" if in_own else "SerializeToString")
                exp_des = f"{out_t}." + ("deserialize" if out_own else "FromString")
                ok = (got is not None and got[0] == arity and got[1] == path
                      and got[2].endswith(exp_ser) and got[3].endswith(exp_des))
                key = f"stub:{tname}.{attr}"
                if ok:
                    oks.append(key)
                else:
                    bad[key] = (f"{which}.{cm} dispatches to transport.{attr}; emitted stub {got} != "
                                f"({arity}, {path}, ...{exp_ser}, ...{exp_des})")
            if not re.search(rf"self\.{attr}: (?:self\._wrap_method|gapic_v1\.method(?:_async)?\.wrap_method)\(\s*self\.{attr},", base_src) \
                    and which == "client":
                bad[f"base-wrap:{attr}"] = f"base transport does not wrap self.{attr}"
    for tname, fname, suffix in (("grpc", "grpc.py", "GrpcTransport"), ("grpc_asyncio", "grpc_asyncio.py", "GrpcAsyncIOTransport")):
        keys, kbad = stub_cache_problems(g.text(f"services/library/transports/{fname}"), suffix)
        for prop in keys:
            if prop in kbad:
                bad[f"stub-cache:{tname}.{prop}"] = kbad[prop]
            else:
                oks.append(f"stub-cache:{tname}.{prop}")
    return oks, bad, tables


def body(chk: core.Check):
    _client.common(chk)
    quick = chk.tier == "quick"
    timeout = 240 if quick else 1200
    chk.bound("rpc_forms", "unary, void, server/client/bidi streaming, cross-package request (Empty, "
              "GetOperationRequest), keyword-named RPC (Import), transport-unsafe name (CreateChannel), paged, LRO")
    chk.bound("crosshair_per_condition_timeout_s", timeout)
    chk.outside += ["wire bytes, channel, streaming arity on the wire (grpc C core)"]
    g = _client.render(chk)
    hm = ch.load_module(_client.HARNESS, {"VERIF_EMITTED": g.outdir})
    _client.encode_sources(chk, g, ["get_book", "delete_book", "stream_books", "upload", "chat", "import_",
                                    "create_channel", "ping", "check_operation", "list_books", "write_book"])
    oks, bad, tables = table_diff(g)
    for k in oks:
        chk.ok("stub-table (concrete diff)", k)
    for k, text in bad.items():
        chk.violation(k, text, {"kind": "stub-table", "diff_key": k})
    # instance state: a class-level mutable default of an emitted transport class must be re-bound in __init__,
    # otherwise two transports (two channels) share it -- e.g. the stub cache (concrete AST check)
    for fname in ("grpc.py", "grpc_asyncio.py", "rest.py"):
        for cname, attr, ok in shared_state(g.text(f"services/library/transports/{fname}")):
            key = f"instance-state:{fname}:{cname}.{attr}"
            if ok:
                chk.ok("instance-state (concrete AST)", key)
            else:
                chk.violation(key, f"{cname}.{attr} is a class-level mutable default that __init__ never re-binds: every "
                              "instance (every channel) shares it", {"kind": "instance-state", "file": fname, "cls": cname, "attr": attr})
    chk.sample({"stub_table_grpc": {k: v[:2] for k, v in list(tables["grpc"].items())[:4]}})
    # ---- solver part ----------------------------------------------------------------------
    _client.run_funcs(
        chk, g, hm.C03_FUNCS, "dispatch", timeout, partitions=None,
        twins=[("twin_flat", "kwargs-only create_book call reaches the final comparison")],
        canaries=[("wrong-rpc", "flat_delete_book", "sync delete_book dispatching through transport.get_book (in-memory mutant)")])


def replay(chk, data):
    if data.get("kind") == "instance-state":
        from lib import gen
        g = gen.generate(apis.client_api(), parameter="transport=grpc+rest", service_yaml=apis.CLIENT_SERVICE_YAML)
        for cname, attr, ok in shared_state(g.text(f"services/library/transports/{data['file']}")):
            if (cname, attr) == (data["cls"], data["attr"]) and not ok:
                return data["text"]
        return None
    if data.get("kind") == "stub-table":
        from lib import gen
        g = gen.generate(apis.client_api(), parameter="transport=grpc+rest", service_yaml=apis.CLIENT_SERVICE_YAML)
        _oks, bad, _t = table_diff(g)
        return bad.get(data["diff_key"])
    return _client.replay(chk, data)


if __name__ == "__main__":
    core.run_check("C03", __doc__.strip().splitlines()[0], body, replay)
