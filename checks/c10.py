"""C10 -- generation is a pure, deterministic function of the request (order-adversary formulation).

"For all hash seeds" is decided as "for all iteration orders of every set-typed value": the only way a seed reaches the
output.  (1) Inventory, regenerated from the working tree on every run: every iteration over a set-typed expression in
gapic/**/*.py (AST) and every use of a set-typed schema attribute in the Jinja templates, classified as
order-insensitive, sorted-by-key, or raw.  A raw site must carry a reviewed justification whose syntactic side
condition is re-checked; an unknown raw site makes the check inconclusive unless the replay shows a difference.
(2) z3 (strings): for every sorted-by-key site, two distinguishable elements with equal keys must not exist (key
injective => the site is order-insensitive for EVERY order).  (3) Replay: a battery of requests is generated in separate
processes under several PYTHONHASHSEEDs through `python -m gapic.cli.generate`; a sat model of (2) is turned into such
a request.  Only a byte difference is reported as a violation.
"""
from __future__ import annotations

import hashlib
import os
import subprocess
import sys
import tempfile
import time

import z3

from lib import apis, core, gen, rx, setorder

# reviewed raw sites: (function, code fragment) -> (justification, checker name or None)
JUSTIFIED = {
    ("validate_and_transform_request", "spurious_kwords"): ("text of a raised exception only; no output is produced", None),
    ("build", "tuple(proto_packages)"): ("argument of os.path.commonprefix, which is order-insensitive", None),
    ("build", "', '.join(proto_packages)"): ("text of a raised exception only", None),
    ("recursive_field_types", "tuple(types)"): ("returns a set-ordered tuple: every consumer must be order-insensitive "
                                                "(tracked below as the tainted sequences recursive_field_types / ref_types)", None),
    ("gen_resources", "message.recursive_field_types"): ("generator consumed by frozenset(...) in Service.resource_messages", "resource_messages_frozenset"),
    ("gen_indirect_resources_used", "message.recursive_resource_fields"): ("generator consumed by frozenset(...) in Service.resource_messages", "resource_messages_frozenset"),
    ("resource_messages_dict", "self.resource_messages"): ("dict used for key lookup only (samplegen resource lookup)", "dict_lookup_only"),
    ("resource_messages", "message.recursive_resource_fields"): ("generator consumed by frozenset(...) in Service.resource_messages", "resource_messages_frozenset"),
    ("resource_messages", "message.recursive_field_types"): ("generator consumed by frozenset(...) in Service.resource_messages", "resource_messages_frozenset"),
}
TAINTED_SEQ = ["recursive_field_types", "ref_types"]   # set-ordered sequences (see JUSTIFIED)

# reviewed ambient-input sites: (file, function, prefix of what) -> (justification, side-condition name or None)
AMBIENT_OK = {
    ("gapic/cli/generate.py", "generate", "sys.stdin"): ("reads the CodeGeneratorRequest itself", None),
    ("gapic/cli/dump.py", "dump", "sys.stdin"): ("debug entry point that dumps the request; produces no response", None),
    ("gapic/cli/generate_with_pandoc.py", "<module>", "os."): ("wrapper script: sets the child's environment and re-executes "
                                                               "the plugin; paths are relative to the script file", None),
    ("gapic/cli/generate_with_pandoc.py", "<module>", "sys."): ("wrapper script: forwards its own argv to the child", None),
    ("gapic/samplegen/manifest.py", "generate", "time.gmtime"): ("legacy sample manifest: not called from anywhere in gapic/", "manifest_unused"),
    ("gapic/samplegen_utils/utils.py", "generate_all_sample_fpaths", "os.path.isfile"): ("probes the sample-config paths named by "
                                                                                         "the request's options (referenced option files)", None),
    ("gapic/utils/options.py", "build", "os.path.realpath"): ("of a path built from the package's own __file__: independent of cwd", None),
    ("gapic/utils/options.py", "build", "os.path.expanduser"): ("applied to the template directories named by the request's options", None),
    ("gapic/schema/metadata.py", "__hash__", "hash()"): ("hash of str-valued fields: influences set order only (set-iteration inventory)", None),
    ("gapic/schema/wrappers.py", "__hash__", "hash()"): ("hash of str-valued fields: influences set order only (set-iteration inventory)", None),
    ("gapic/schema/wrappers.py", "__hash__", "id()"): ("Field hashes by identity: influences set order only (set-iteration inventory)", None),
}


def side_condition(name, repo):
    w = open(os.path.join(repo, "gapic/schema/wrappers.py")).read()
    if name == "resource_messages_frozenset":
        i = w.index("def resource_messages(self)")
        body = w[i:w.index("\n    @", i + 10)]
        return "return frozenset(" in body and "gen_resources(" in body and "gen_indirect_resources_used(" in body
    if name == "manifest_unused":
        for d, _dirs, files in os.walk(os.path.join(repo, "gapic")):
            for f in files:
                if f.endswith((".py", ".j2")) and not (d.endswith("samplegen") and f == "manifest.py"):
                    if "manifest.generate" in open(os.path.join(d, f)).read():
                        return False
        return True
    if name == "dict_lookup_only":
        hits = []
        for d, _dirs, files in os.walk(os.path.join(repo, "gapic")):
            for f in files:
                if f.endswith((".py", ".j2")):
                    for line in open(os.path.join(d, f)):
                        if "resource_messages_dict" in line and "def resource_messages_dict" not in line:
                            hits.append(line.strip())
        return all(".get(" in h or "[" in h for h in hits)
    return True


def tainted_consumers(repo):
    """uses of the set-ordered sequences: python for-loops must feed sets / sorted, template loops must sit inside sort_lines"""
    bad = []
    import ast
    for path in setorder.py_files(repo):
        text = open(path).read()
        tree = ast.parse(text)
        parents = {}
        for p_ in ast.walk(tree):
            for c_ in ast.iter_child_nodes(p_):
                parents[c_] = p_
        for node in ast.walk(tree):
            if isinstance(node, ast.Attribute) and node.attr in TAINTED_SEQ:
                par = parents.get(node)
                ok = False
                cur = node
                # climb: accepted when some ancestor within the statement is set()/frozenset()/sorted()/SetComp/any/all,
                # or it is the `types` source inside _ref_types (propagates the taint to ref_types, itself tracked)
                while cur in parents and not isinstance(cur, ast.stmt):
                    cur = parents[cur]
                    if isinstance(cur, ast.SetComp):
                        ok = True
                    if isinstance(cur, ast.Call) and isinstance(cur.func, ast.Name) and cur.func.id in ("set", "frozenset", "sorted", "any", "all"):
                        ok = True
                fn = cur
                while fn in parents and not isinstance(fn, (ast.FunctionDef, ast.AsyncFunctionDef)):
                    fn = parents[fn]
                fname = getattr(fn, "name", "?")
                if fname in ("_ref_types", "ref_types", "flat_ref_types", "recursive_resource_fields", "gen_resources",
                             "names", "python_modules", "resource_messages"):
                    ok = True   # reviewed: these feed sets / sorted() / the tainted sequences themselves
                if not ok:
                    bad.append(f"{os.path.relpath(path, repo)}:{node.lineno} {fname}: {ast.unparse(par)[:80]}")
    for root in ("gapic/templates", "gapic/ads-templates"):
        for d, _dirs, files in os.walk(os.path.join(repo, root)):
            for f in files:
                if f.endswith(".j2"):
                    path = os.path.join(d, f)
                    text = open(path).read()
                    blocks = setorder.inside_filter_blocks(text)
                    for i, line in enumerate(text.splitlines(), 1):
                        if any(("." + t) in line for t in TAINTED_SEQ) and ("{%" in line or "{{" in line):
                            if ".flat_ref_types" in line and ".ref_types" not in line.replace(".flat_ref_types", ""):
                                continue
                            if i not in blocks and "|sort" not in line:
                                bad.append(f"{os.path.relpath(path, repo)}:{i}: {line.strip()[:80]}")
    return bad


# ---------------------------------------------------------------------------- replay machinery
FAKE_CLOCK = r"""
import os, datetime as _dt, time as _t
_e = float(os.environ["VERIF_FAKE_EPOCH"])
class _D(_dt.date):
    @classmethod
    def today(cls): return cls.fromtimestamp(_e)
class _DT(_dt.datetime):
    @classmethod
    def now(cls, tz=None): return cls.fromtimestamp(_e, tz)
    @classmethod
    def utcnow(cls): return cls.fromtimestamp(_e, _dt.timezone.utc).replace(tzinfo=None)
    @classmethod
    def today(cls): return cls.fromtimestamp(_e)
_dt.date, _dt.datetime = _D, _DT
_gm, _lt = _t.gmtime, _t.localtime
_t.time = lambda: _e
_t.gmtime = lambda s=None: _gm(_e if s is None else s)
_t.localtime = lambda s=None: _lt(_e if s is None else s)
"""
EPOCHS = [1781524800.0, 1927800000.0]      # 2026-06-15 and 2031-02-03: the replay runs under two different wall clocks


def run_generator(req_bytes, seed, cwd, epoch=EPOCHS[0]):
    env = dict(os.environ, PYTHONHASHSEED=str(seed), PYTHONPATH=core.REPO, VERIF_FAKE_EPOCH=str(epoch))
    p = subprocess.run([sys.executable, "-W", "ignore", "-c", FAKE_CLOCK +
                        "import sys, pypandoc; pypandoc.convert_text = lambda text, *a, **k: text\n"
                        "from gapic.cli import generate; generate.generate()"],
                       input=req_bytes, capture_output=True, env=env, cwd=cwd, timeout=300)
    if p.returncode != 0:
        raise core.Inconclusive("generator subprocess failed: " + p.stderr.decode()[-400:])
    return p.stdout


def same_short_name_api():
    fb = gen.FileBuilder("google/example/dt/v1/dt.proto", "google.example.dt.v1")
    fields = []
    for i, dom in enumerate(("a.example.com", "b.example.com", "c.example.com", "d.example.com")):
        fb.message(f"Thing{i}", [("name", "string")], resource=(f"{dom}/Thing", [f"k{i}s/{{k{i}}}"]))
        fields.append((f"t{i}", "string", {"ref": f"{dom}/Thing"}))
    fb.message("Req", fields)
    fb.message("Rsp", [("x", "string")])
    s = fb.service("Svc")
    fb.method(s, "Get", "Req", "Rsp", http=("get", "/v1/x"))
    return [fb]


def subpackage_api():
    files = []
    for sub in ("alpha", "beta", "gamma", "delta", "omega"):
        fb = gen.FileBuilder(f"google/example/sp/v1/{sub}/{sub}.proto", f"google.example.sp.v1.{sub}")
        fb.message("Req" + sub.capitalize(), [("name", "string")])
        s = fb.service("Svc" + sub.capitalize())
        fb.method(s, "Get", "Req" + sub.capitalize(), "Req" + sub.capitalize(), http=("get", f"/v1/{sub}"))
        files.append(fb)
    return files


SELECTIVE_YAML = {"type": "google.api.Service", "publishing": {"library_settings": [{"version": "google.example.sm.v1", "python_settings": {
    "common": {"selective_gapic_generation": {"methods": ["google.example.sm.v1.Library.CreateBook", "google.example.sm.v1.Library.ListBooks",
                                                          "google.example.sm.v1.Library.DrawShape"]}}}}]}}


def battery():
    return [("same-short-resource-name", same_short_name_api(), "transport=grpc+rest", None),
            ("sub-packages", subpackage_api(), "transport=grpc,autogen-snippets=false", None),
            ("client-api", apis.client_api(), "transport=grpc+rest", None),
            ("retry-codes", apis.retry_api(), "transport=grpc", apis.RETRY_CONFIGS[1]),
            ("selective", apis.samples_api(), "transport=grpc+rest", None),
            # selective generation (service yaml): the pruning pass rebuilds the message / enum maps of every file
            ("selective-yaml", apis.samples_api(), "transport=grpc", {"__service_yaml__": SELECTIVE_YAML}),
            # one service polling three extended-operation services: a SET of services reaches the transport templates
            ("extended-operations", apis.compute_api(), "transport=rest", None),
            # a RELATIVE template directory is resolved against the installed gapic package, never against the working
            # directory: one of the two working directories of the replay holds an unrelated `templates/` directory
            ("relative-templates", apis.retry_api(), "python-gapic-templates=templates,transport=grpc", None)]


def replay_request(label, seeds):
    for name, files, param, retry in battery():
        if name != label:
            continue
        d = tempfile.mkdtemp(prefix="gapicverif-c10-")
        gen._SCRATCH.append(d)
        if name == "relative-templates":
            os.makedirs(os.path.join(d, "templates"))
            with open(os.path.join(d, "templates", "NOTICE.txt.j2"), "w") as fh:
                fh.write("an unrelated template directory of the caller's project\n")
        if retry is not None and "__service_yaml__" in retry:
            import json
            p = os.path.join(d, "service.json")          # a JSON document is valid YAML
            json.dump(retry["__service_yaml__"], open(p, "w"))
            param += f",service-yaml={p}"
        elif retry is not None:
            import json
            p = os.path.join(d, "retry.json")
            json.dump(retry, open(p, "w"))
            param += f",retry-config={p}"
        req = gen.build_request(files, None, param).SerializeToString()
        digests = {}
        outs = {}
        for k, seed in enumerate(seeds):
            cwd = d if k % 2 == 0 else os.path.dirname(gen.__file__)
            out = run_generator(req, seed, cwd, EPOCHS[(k // 2) % 2] if len(seeds) > 2 else EPOCHS[k % 2])
            digests[seed] = hashlib.sha256(out).hexdigest()[:16]
            outs[seed] = out
        return digests, outs
    raise KeyError(label)


def first_difference(a, b):
    from google.protobuf.compiler import plugin_pb2
    ra, rb = plugin_pb2.CodeGeneratorResponse.FromString(a), plugin_pb2.CodeGeneratorResponse.FromString(b)
    na, nb = [f.name for f in ra.file], [f.name for f in rb.file]
    if na != nb:
        for i, (x, y) in enumerate(zip(na, nb)):
            if x != y:
                return f"file order differs at index {i}: {x} vs {y}"
        return "different file sets"
    for fa, fb_ in zip(ra.file, rb.file):
        if fa.content != fb_.content:
            la, lb = fa.content.splitlines(), fb_.content.splitlines()
            for i, (x, y) in enumerate(zip(la, lb)):
                if x != y:
                    return f"{fa.name}:{i + 1}: {x.strip()[:70]!r} vs {y.strip()[:70]!r}"
            return f"{fa.name}: different length"
    return "byte difference outside file contents"


def body(chk: core.Check):
    quick = chk.tier == "quick"
    seeds = [0, 1, 2] if quick else [0, 1, 2, 3, 4, 5, 6, 7]
    chk.engines |= {"z3 strings (key injectivity)", "AST/Jinja site inventory", "multi-process replay under PYTHONHASHSEED"}
    chk.bound("hash_seeds_in_replay", seeds)
    chk.assumptions += ["a hash seed can influence the output only through the iteration order of set-typed values whose "
                        "elements hash by str (object-id hashes, time, environment are covered by the replay only)",
                        "services / exception classes have unique names within one API (protobuf / api_core guarantee)"]
    chk.outside += ["sets introduced by third-party libraries (jinja2, protobuf)"]
    repo = core.REPO
    sites, names = setorder.python_sites(repo)
    ret_names = {n for n in names if n not in ("answer", "types", "visited_fields", "visited_messages", "collisions",
                                               "address_allowlist", "OPT_FLAGS")}
    tsites = setorder.template_sites(repo, ret_names | {"retryable_exceptions"})
    chk.encoded("inventory of gapic/**/*.py set iterations", "\n".join(f"{s['file']}:{s['function']}:{s['code']}" for s in sites))
    chk.encoded("inventory of template uses of set-typed attributes", "\n".join(f"{s['file']}:{s['line']}:{s['code']}" for s in tsites))
    chk.extra["python_sites"] = {k: sum(1 for s in sites if s["kind"] == k) for k in ("insensitive", "sorted", "raw")}
    chk.extra["template_sites"] = {k: sum(1 for s in tsites if s["kind"] == k) for k in ("membership", "truthiness", "sorted", "raw", "other")}
    unknown_raw = []
    key_ties = []
    # ---- python sites
    for s in sites:
        key = f"{s['file']}:{s['function']}:{s['id']}"
        if s["kind"] == "insensitive":
            chk.ok("site:insensitive", key)
        elif s["kind"] == "sorted":
            if s["detail"] in ("key=identity", "GeneratorExp", "ListComp"):
                chk.ok("site:sorted-identity", key)
            else:
                # sorted(<set of str>, key=<lambda>): order-insensitive iff the key is injective (BSTR + z3, checks/_keyinj.py)
                from checks import _keyinj
                verdict, what, st = _keyinj.key_injective(s["detail"][len("key="):])
                chk.encoded(f"{s['file']}:{s['function']}: {s['code']}", s["code"])
                if verdict == "injective":
                    chk.ok("site:sorted-key-injective", key, st["solver_s"], n=max(st["leaves"], 1))
                elif verdict == "collision":
                    key_ties.append((key, s["code"], what))
                else:
                    unknown_raw.append(f"sorted with a key function at {key}: {s['code']} ({what})")
        else:
            j = [v for (fn, frag), v in JUSTIFIED.items() if fn == s["function"] and frag in s["code"]]
            if j and (j[0][1] is None or side_condition(j[0][1], repo)):
                chk.ok("site:raw-justified", key)
                chk.sample({"raw_site": f"{s['file']}:{s['line']} {s['code'][:70]}", "justification": j[0][0]}, limit=30)
            else:
                unknown_raw.append(f"{s['file']}:{s['line']} in {s['function']}: {s['code'][:90]} [{s['detail']}]")
    # ---- ambient inputs (clock, randomness, environment, working directory, file-system probes, object identity)
    amb = setorder.ambient_sites(repo)
    chk.encoded("inventory of ambient-input uses in gapic/**/*.py", "\n".join(f"{a['file']}:{a['function']}:{a['what']}" for a in amb))
    for a in amb:
        key = f"{a['file']}:{a['function']}:{a['what']}"
        just = [v for (f_, fn_, w_), v in AMBIENT_OK.items() if a["file"] == f_ and a["function"] == fn_ and a["what"].startswith(w_)]
        if just and (just[0][1] is None or side_condition(just[0][1], repo)):
            chk.ok("site:ambient-justified", key)
            chk.sample({"ambient_site": f"{a['file']}:{a['line']} {a['what']}", "justification": just[0][0]}, limit=40)
        else:
            unknown_raw.append(f"ambient input {a['what']} at {a['file']}:{a['line']} in {a['function']}: {a['code']}")
    bad_taint = tainted_consumers(repo)
    if bad_taint:
        unknown_raw += ["set-ordered sequence consumed in order: " + b for b in bad_taint]
    else:
        chk.ok("site:tainted-sequences", "recursive_field_types/ref_types consumers")
    # ---- template sites
    sat_models = []
    for s in tsites:
        key = f"{s['file']}:{s['line']}:{s['name']}"
        if s["kind"] in ("membership", "truthiness"):
            chk.ok("template:membership", key)
        elif s["kind"] == "sorted":
            attr = s["detail"]
            t0 = time.time()
            if attr == "identity" or attr.startswith("enclosing"):
                chk.ok("template:sorted-identity", key)
            elif s["name"] == "resource_messages":
                keys = [a.strip() for a in attr.split(",")]
                # elements are distinguished by their full resource type  <domain>/<Kind>
                t1, t2 = z3.Strings("t1 t2")
                typ = z3.Concat(z3.Plus(z3.Union(z3.Range("a", "z"), z3.Re("."))), z3.Re("/"), z3.Plus(z3.Union(z3.Range("A", "Z"), z3.Range("a", "z"))))

                def keyfn(t, k):
                    if k == "resource_type":
                        return z3.SubString(t, z3.IndexOf(t, z3.StringVal("/"), 0) + 1, z3.Length(t))
                    if k == "resource_type_full_path":
                        return t
                    return None
                ks1 = [keyfn(t1, k) for k in keys]
                if any(k is None for k in ks1):
                    unknown_raw.append(f"unknown sort attribute {attr} at {key}")
                    continue
                sol = rx.Solver(30)
                r, m = sol.check(z3.InRe(t1, typ), z3.InRe(t2, typ), t1 != t2, z3.Length(t1) <= 12, z3.Length(t2) <= 12,
                                 *[keyfn(t1, k) == keyfn(t2, k) for k in keys])
                if r == "unsat":
                    chk.ok("template:sort-key-injective", key, time.time() - t0)
                elif r == "sat":
                    sat_models.append((key, rx.py_string(m, t1), rx.py_string(m, t2)))
                else:
                    chk.fail_inconclusive(f"key injectivity query for {key}: {r}")
            elif s["name"] == "retryable_exceptions" and attr == "__name__":
                import grpc
                from google.api_core import exceptions
                classes = {exceptions.exception_class_for_grpc_status(c) for c in grpc.StatusCode}
                if len({c.__name__ for c in classes}) == len(classes):
                    chk.ok("template:sort-key-injective", key)
                else:
                    unknown_raw.append(f"exception class names are not unique ({key})")
            elif s["name"] == "get_extended_operations_services" and attr == "name":
                chk.ok("template:sort-key-injective(assumed unique service names)", key)
            else:
                unknown_raw.append(f"sorted by unknown attribute {attr!r} at {key}")
        elif s["kind"] == "raw":
            unknown_raw.append(f"template iterates a set-typed value without sorting: {key}: {s['code'][:80]}")
        else:
            chk.ok("template:other-use", key)
    # ---- replay
    t0 = time.time()
    labels = [b[0] for b in battery()]
    diffs = {}
    for label in labels:
        digests, outs = replay_request(label, seeds)
        chk.programs += 1
        vals = list(digests.values())
        if len(set(vals)) == 1:
            chk.ok("replay:byte-identical", label)
        else:
            s0 = seeds[0]
            other = [s_ for s_ in seeds if digests[s_] != digests[s0]][0]
            diffs[label] = first_difference(outs[s0], outs[other]) + f" (PYTHONHASHSEED {s0} vs {other})"
        chk.sample({"request": label, "digests": digests}, limit=30)
    chk.extra["replay_wall_s"] = round(time.time() - t0, 1)
    # ---- verdicts
    for key, a, b in sat_models:
        label = "same-short-resource-name"
        if label in diffs:
            chk.violation("resource_messages-sort-ties", f"{key}: resources {a!r} and {b!r} have equal sort keys and the "
                          f"response depends on the hash seed: {diffs[label]}", {"kind": "replay", "label": label, "seeds": seeds})
        else:
            chk.fail_inconclusive(f"sort key not injective at {key} ({a!r} vs {b!r}) but the replay did not differ")
    for key, code, (a, b) in key_ties:
        if diffs:
            label = sorted(diffs)[0]
            chk.violation(f"sorted-key-ties:{key.split(':')[1]}", f"{code}: the distinct elements {a!r} and {b!r} have equal sort keys, so "
                          f"ties keep the set's iteration order, and the response depends on the hash seed: {diffs[label]}",
                          {"kind": "replay", "label": label, "seeds": seeds})
        else:
            chk.fail_inconclusive(f"sort key of {code} at {key} is not injective ({a!r} vs {b!r}) but no replayed request differed")
    for label, d in diffs.items():
        if label == "same-short-resource-name" and sat_models:
            continue
        chk.violation(f"replay:{label}", f"responses differ across processes (hash seed / working directory): {d}", {"kind": "replay", "label": label, "seeds": seeds})
    if not diffs:
        for u in unknown_raw:
            chk.fail_inconclusive("unclassified order-dependent site: " + u)
    elif unknown_raw:
        chk.extra["unclassified_sites"] = unknown_raw
    chk.twin("inventory is non-empty", len(sites) > 3 and len(tsites) > 5)
    from checks import _keyinj
    v1, w1, _s1 = _keyinj.key_injective("lambda i: i.split('#')[0].rstrip()")
    v2, _w2, _s2 = _keyinj.key_injective("lambda i: (i.lower(), i)")
    chk.canary("key-injectivity engine: comment-stripping key collides, (lower, identity) key does not", v1 == "collision" and v2 == "injective",
               f"{v1} {w1} / {v2}")
    # canary: the injectivity query must be sat for the short-name key alone
    t1, t2 = z3.Strings("u1 u2")
    typ = z3.Concat(z3.Plus(z3.Range("a", "z")), z3.Re("/"), z3.Plus(z3.Range("A", "Z")))
    sol = rx.Solver(30)
    r, _m = sol.check(z3.InRe(t1, typ), z3.InRe(t2, typ), t1 != t2,
                      z3.SubString(t1, z3.IndexOf(t1, z3.StringVal("/"), 0) + 1, z3.Length(t1)) ==
                      z3.SubString(t2, z3.IndexOf(t2, z3.StringVal("/"), 0) + 1, z3.Length(t2)))
    chk.canary("short-name-only sort key is not injective (z3 sat)", r == "sat")


def replay(chk, data):
    if data.get("kind") == "replay":
        digests, outs = replay_request(data["label"], data["seeds"])
        if len(set(digests.values())) > 1:
            return f"responses differ across hash seeds: {digests}"
        return None
    return None


if __name__ == "__main__":
    core.run_check("C10", __doc__.strip().splitlines()[0], body, replay, level="other")
