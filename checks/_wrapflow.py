"""BSTR model of textwrap.TextWrapper.wrap / fill (defaults, break_long_words either way, break_on_hyphens=False) and
the C20 obligations on gapic.utils.lines.wrap:  the re-flow never drops, duplicates or reorders words.

The model follows CPython's Lib/textwrap.py step by step (_munge_whitespace: expandtabs + whitespace -> ' ';
_split with wordsep_simple_re; _wrap_chunks with drop_whitespace, no max_lines, _handle_long_word without
breaking).  It is validated against the real textwrap on concrete strings on every run.
"""
from __future__ import annotations

import z3

from lib import bstr

TW_WS = (9, 10, 11, 12, 13, 32)


def _is_tw_ws(c):
    if isinstance(c, int):
        return c in TW_WS
    return z3.Or(z3.And(c >= 9, c <= 13), c == 32)


def tw_wrap(text, width=70, initial_indent="", subsequent_indent="", break_long_words=True, break_on_hyphens=True,
            **kw):
    if break_on_hyphens or kw:
        raise bstr.Unsupported("textwrap model: only break_on_hyphens=False and the default remaining options")
    br = bstr.ctx().branch
    text = bstr.S(text)
    ii, si = bstr.S(initial_indent), bstr.S(subsequent_indent)
    # _munge_whitespace
    out = []
    col = 0
    for ch in text.c:
        if br(bstr.c_eq(ch, 9)):
            n = 8 - col % 8
            out += [32] * n
            col += n
        elif br(bstr.b_or([bstr.c_eq(ch, 10), bstr.c_eq(ch, 13)])):
            out.append(32)
            col = 0
        elif br(_is_tw_ws(ch)):
            out.append(32)
            col += 1
        else:
            out.append(ch)
            col += 1
    # _split (whitespace runs / words), empty chunks dropped
    chunks = []
    cur, cur_ws = [], None
    for ch in out:
        w = ch == 32 if isinstance(ch, int) else False   # symbolic chars reaching here are known non-whitespace
        if cur and w != cur_ws:
            chunks.append((cur, cur_ws))
            cur = []
        cur.append(ch)
        cur_ws = w
    if cur:
        chunks.append((cur, cur_ws))
    # _wrap_chunks
    if width <= 0:
        raise ValueError("invalid width %r (must be > 0)" % width)
    lines = []
    chunks.reverse()
    while chunks:
        cur_line = []
        cur_len = 0
        indent = si if lines else ii
        w_ = width - len(indent)
        if chunks[-1][1] and lines:
            del chunks[-1]
        while chunks:
            ln = len(chunks[-1][0])
            if cur_len + ln <= w_:
                cur_line.append(chunks.pop())
                cur_len += ln
            else:
                break
        if chunks and len(chunks[-1][0]) > w_:
            # _handle_long_word
            if break_long_words:
                space_left = 1 if w_ < 1 else w_ - cur_len
                word, is_ws = chunks[-1]
                cur_line.append((word[:space_left], is_ws))
                chunks[-1] = (word[space_left:], is_ws)
            elif not cur_line:
                cur_line.append(chunks.pop())
        if cur_line and cur_line[-1][1]:
            del cur_line[-1]
        if cur_line:
            chars = list(indent.c)
            for c_, _w in cur_line:
                chars += c_
            lines.append(bstr.SymStr(chars))
    return lines


def tw_fill(text=None, width=70, **kw):
    return bstr.S("\n").join(tw_wrap(text, width=width, **kw))


def words(s):
    """s.split() on a SymStr (forks on whitespace)"""
    return bstr.S(s).split()


# ---------------------------------------------------------------------------------------------------------
import os
from types import SimpleNamespace as NS

from lib import core

LINES = os.path.join(core.REPO, "gapic/utils/lines.py")
WRAP_ALPHA = [ord(c) for c in "a \n:-1.\t"]


def load_wrap(source=None):
    import re
    lines_src = source if source is not None else open(LINES).read()
    helpers = {}
    m = re.search(r'^NUMBERED_LIST_REGEX = r"(.*)"$', lines_src, re.M)
    if not m:
        raise core.Inconclusive("NUMBERED_LIST_REGEX not found in lines.py")
    for name in ("get_subsequent_line_indentation_level", "is_list_item"):
        fn, _ = bstr.load_function(LINES, name, {"NUMBERED_LIST_REGEX": bstr.S(m.group(1)), "bool": bool}, source=lines_src)
        helpers[name] = fn
    for fn in helpers.values():
        fn.__globals__.update(helpers)
    wrap, wsrc = bstr.load_function(LINES, "wrap", dict(helpers, textwrap=NS(fill=tw_fill, wrap=tw_wrap)), source=lines_src)
    return wrap, wsrc


def py_wrap_violation(text, width, indent, offset):
    from gapic.utils.lines import wrap
    out = wrap(text, width, indent=indent, offset=offset)
    if out.split() != text.split():
        return (f"wrap({text!r}, {width}, indent={indent}, offset={offset}) = {out!r}: words {out.split()} != "
                f"{text.split()}")
    for i, line in enumerate(out.split("\n")):
        lim = width - ((indent if offset is None else offset) if i == 0 else 0)
        if len(line) > lim and len(line.split()) > 1:
            return (f"wrap({text!r}, {width}, indent={indent}, offset={offset}) = {out!r}: line {i} {line!r} has "
                    f"{len(line)} > {lim} columns and is not a single unbreakable word")
    return None


def wrap_task(task):
    """all texts of one (length, prefix, width, indent, offset) partition:
       words(wrap(t)) == words(t)   and   every output line fits the width (first line: width - offset) unless it
       holds a single unbreakable word"""
    wrap, _ = load_wrap(task.get("source"))
    L, prefix, width, indent, offset = task["L"], task["prefix"], task["width"], task["indent"], task["offset"]
    s = bstr.SymStr(list(prefix) + [z3.Int(f"w{i}") for i in range(len(prefix), L)] + list(task.get("suffix", ())))
    base = bstr.alphabet_constraints(s, task.get("alphabet", WRAP_ALPHA))
    leaves = 0
    ctx = None

    def run():
        out = wrap(s, width, indent=indent, offset=offset)
        lines = out.split("\n")
        per = [ln.split() for ln in lines]            # forks on whitespace; lengths and word counts are concrete per path
        fits = all(len(ln) <= width - (offset if i == 0 else 0) or len(ws_) <= 1
                   for i, (ln, ws_) in enumerate(zip(lines, per)))
        return [w for ws_ in per for w in ws_], words(s), fits
    for ctx, (wo, ws, fits) in bstr.explore(run, base):
        leaves += 1
        phi = fits and (len(wo) == len(ws)) and bstr.b_and([bstr.eq_chars(a.c, b.c) for a, b in zip(wo, ws)])
        ok, m = ctx.valid(phi)
        if not ok:
            return leaves, ctx.checks, ctx.solver_s, bstr.model_string(m, s), task
    return leaves, (ctx.checks if ctx else 0), (ctx.solver_s if ctx else 0.0), None, task
