"""C14 -- generated samples are consistent with their metadata (bookkeeping clause) and with the generated client.

 (1) CrossHair/z3 on the real Snippet._parse_snippet_segments / full_snippet: for ALL marker layouts of a 12/16-line
     sample (START < client-init < request-init < request-exec < response < END) the six segments are exactly the line
     ranges between the markers and full_snippet is exactly the text between the tags.
 (2) RX (z3 regex): every region tag the generator can build from identifier-shaped names lies in the documented
     language  <shortname>_<version>_generated_<Service>_<Rpc>_<sync|async>.
 (3) per rendered program (concrete): one sync and one async sample per RPC, unique region tags with matching START/END,
     every sample compiles, every attribute path assigned in the request set-up is a real field path of the generated
     types, the snippet embedded in the client method's docstring is the sample's text between the tags (non-blank lines
     with exact indentation; the formatter may drop blank lines inside the literal), and the
     snippet-metadata entry names the file, client class, method and segment ranges of that file.
"""
from __future__ import annotations

import ast
import json
import os
import re
import time

import z3

from lib import apis, ch, core, gen, rx

H = os.path.join(core.VERIF, "harness", "h14_snippet.py")
TAG_RE = r"^[a-z0-9]+_v\w+_generated_\w+_\w+_(sync|async)$"


def oneof_index(fdps):
    """message -> {oneof name: [member field names]} for REAL oneofs (synthetic proto3-optional oneofs excluded)"""
    out = {}
    for fdp in fdps:
        for m in fdp.message_type:
            groups = {}
            for f in m.field:
                if f.HasField("oneof_index") and not f.proto3_optional:
                    groups.setdefault(m.oneof_decl[f.oneof_index].name, []).append(f.name)
            out[m.name] = groups
    return out


def field_index(fdps):
    idx = {}
    for fdp in fdps:
        for m in fdp.message_type:
            idx[m.name] = {f.name: (f.type_name.split(".")[-1] if f.type == 11 else None) for f in m.field}
    return idx


def snake(n):
    return re.sub(r"(?<!^)(?=[A-Z])", "_", n).lower()


def md_rpc(tag):
    return tag.split("_generated_")[1].split("_", 1)[1].rsplit("_", 1)[0]


def client_method(rpc):
    """name of the emitted client method (reference: snake case, one '_' appended to Python keywords)"""
    import keyword
    return snake(rpc) + ("_" if rpc.lower() in keyword.kwlist else "")


def _sn(n):
    return snake(n)


def program_diff():
    fdps = [fb.f for fb in apis.samples_api()]
    g = gen.generate(apis.samples_api(), parameter="transport=grpc+rest")
    idx = field_index(fdps)
    oneofs = oneof_index(fdps)
    bad, oks = {}, []
    samples = {n: t for n, t in g.files.items() if n.startswith("samples/generated_samples/") and n.endswith(".py")}
    rpcs = [m.name for svc in fdps[0].service for m in svc.method]
    svc_of = {m.name: svc for svc in fdps[0].service for m in svc.method}
    tags = {}
    md_name = [n for n in g.files if n.startswith("samples/generated_samples/snippet_metadata") and n.endswith(".json")]
    metadata = json.loads(g.files[md_name[0]]) if md_name else {"snippets": []}
    md_by_tag = {s["regionTag"]: s for s in metadata.get("snippets", [])}
    srcs = {svc.name: (g.text(f"services/{svc.name.lower()}/client.py"), g.text(f"services/{svc.name.lower()}/async_client.py"))
            for svc in fdps[0].service}
    srcs_by_file = {}
    for name in samples:
        low = os.path.basename(name)
        for svc_name, pair in srcs.items():
            if f"_generated_{_sn(svc_name)}_" in low:
                srcs_by_file[name] = pair
    for name, text in samples.items():
        try:
            tree = ast.parse(text)
        except SyntaxError as e:
            bad[f"compile:{name}"] = f"sample does not compile: {e}"
            continue
        starts = re.findall(r"^# \[START (\S+)\]$", text, re.M)
        ends = re.findall(r"^# \[END (\S+)\]$", text, re.M)
        if len(starts) != 1 or starts != ends or not re.match(TAG_RE, starts[0]):
            bad[f"tag:{name}"] = f"region tags {starts} / {ends} malformed"
            continue
        tag = starts[0]
        tags.setdefault(tag, []).append(name)
        # request set-up: attribute paths must exist on the generated types
        fn = [n for n in tree.body if isinstance(n, (ast.FunctionDef, ast.AsyncFunctionDef))][0]
        var_type = {}
        populated = {}       # variable -> top-level fields the sample populates
        for node in ast.walk(fn):
            if isinstance(node, ast.Assign) and isinstance(node.value, ast.Call) and isinstance(node.value.func, ast.Attribute) \
                    and isinstance(node.targets[0], ast.Name) and node.value.func.attr in idx:
                var_type[node.targets[0].id] = node.value.func.attr
                for kw in node.value.keywords:
                    populated.setdefault(node.targets[0].id, set()).add(kw.arg)
                    if kw.arg not in idx[node.value.func.attr]:
                        bad[f"field:{name}:{kw.arg}"] = f"{node.value.func.attr}({kw.arg}=...) names no field"
        for node in ast.walk(fn):
            if isinstance(node, ast.Assign) and isinstance(node.targets[0], ast.Attribute):
                chain = []
                cur = node.targets[0]
                while isinstance(cur, ast.Attribute):
                    chain.append(cur.attr)
                    cur = cur.value
                if isinstance(cur, ast.Name) and cur.id in var_type:
                    t = var_type[cur.id]
                    path = list(reversed(chain))
                    populated.setdefault(cur.id, set()).add(path[0])
                    for seg in path:
                        if t is None or seg not in idx.get(t, {}):
                            bad[f"field:{name}:{'.'.join(path)}"] = (f"sample assigns {cur.id}.{'.'.join(path)} but "
                                                                     f"{var_type[cur.id]} has no such field path")
                            break
                        t = idx[t][seg]
        # asyncio samples: a client method that is `async def` returns a coroutine -- the sample has to await it (directly,
        # or through the name it was assigned to) before using the result; a sync sample never awaits
        is_async_sample = name.endswith("_async.py")
        svc_for_calls = os.path.basename(name).split("_generated_")[1].split("_")[0] if "_generated_" in name else None
        if is_async_sample:
            acls = [c for c in ast.parse(srcs_by_file[name][1]).body if isinstance(c, ast.ClassDef) and c.name.endswith("AsyncClient")]
            # `async def` methods, and plain methods declared to return an Awaitable (server-streaming calls)
            coro = {f.name for c in acls for f in c.body if isinstance(f, ast.AsyncFunctionDef)} | \
                   {f.name for c in acls for f in c.body if isinstance(f, ast.FunctionDef) and f.returns is not None
                    and ast.unparse(f.returns).startswith("Awaitable[")}
            awaited_calls, awaited_names = set(), set()
            for node in ast.walk(fn):
                if isinstance(node, ast.Await):
                    for sub in ast.walk(node.value):
                        if isinstance(sub, ast.Call):
                            awaited_calls.add(id(sub))
                        if isinstance(sub, ast.Name):
                            awaited_names.add(sub.id)
            for node in ast.walk(fn):
                if isinstance(node, ast.Assign) and isinstance(node.value, ast.Call) and isinstance(node.value.func, ast.Attribute) \
                        and isinstance(node.value.func.value, ast.Name) and node.value.func.value.id == "client" \
                        and node.value.func.attr in coro and id(node.value) not in awaited_calls:
                    tgt = node.targets[0].id if isinstance(node.targets[0], ast.Name) else None
                    if tgt not in awaited_names:
                        bad[f"await:{name}"] = (f"client.{node.value.func.attr} returns an awaitable in the emitted asyncio client; the sample "
                                                f"uses its result `{tgt}` without awaiting the call")
        # one member of each oneof populated (never two)
        for var, fields_ in populated.items():
            for oname, members in oneofs.get(var_type[var], {}).items():
                hit = sorted(set(members) & fields_)
                if len(hit) > 1:
                    bad[f"oneof:{name}:{var_type[var]}.{oname}"] = (f"the sample populates {len(hit)} members {hit} of oneof "
                                                                    f"{var_type[var]}.{oname}")
        # docstring embedding
        lines = text.splitlines(keepends=True)
        s_i = [i for i, l in enumerate(lines) if l.startswith("# [START")][0]
        e_i = [i for i, l in enumerate(lines) if l.startswith("# [END")][0]
        between = "".join(lines[s_i + 1:e_i])
        is_async = tag.endswith("_async")
        svc_name = tag.split("_generated_")[1].split("_")[0]
        if svc_name not in srcs:
            bad[f"tag:{name}"] = f"region tag {tag} names no service of the API"
            continue
        src = srcs[svc_name][1] if is_async else srcs[svc_name][0]
        # the whitespace post-processor may drop blank lines inside the docstring (C20 allows that inside string
        # literals): compare the non-blank lines, in order, with their exact indentation
        want = [("            " + l.rstrip()) for l in between.splitlines() if l.strip()]
        m_ = re.search(r"def %s\(self.*?\.\. code-block:: python\n(.*?)\n\s*Args:" % client_method(md_rpc(tag)), src, re.S)
        have = [l.rstrip() for l in (m_.group(1).splitlines() if m_ else []) if l.strip()]
        if have == want:
            oks.append(f"docstring:{tag}")
        else:
            bad[f"docstring:{tag}"] = "the snippet embedded in the client docstring is not the text between the START and END tags"
        # metadata entry
        md = md_by_tag.get(tag)
        if md is None:
            bad[f"metadata:{tag}"] = "no snippet-metadata entry for this region tag"
        else:
            full = [s for s in md.get("segments", []) if s.get("type") == "FULL"]
            want_cls = svc_name + ("AsyncClient" if is_async else "Client")
            ok = (md.get("file") == os.path.basename(name) and full and full[0].get("start") == s_i + 2
                  and full[0].get("end") == e_i and md["clientMethod"]["client"]["shortName"] == want_cls
                  and md["clientMethod"]["method"]["shortName"] in rpcs)
            # parameter list of the metadata entry == signature of the emitted client method
            want_params = None
            cm = md["clientMethod"].get("shortName")
            calls = [n.func.attr for n in ast.walk(tree) if isinstance(n, ast.Call) and isinstance(n.func, ast.Attribute)
                     and isinstance(n.func.value, ast.Name) and n.func.value.id == "client"]
            if calls != [cm] or cm != client_method(md_rpc(tag)):
                ok = False
                bad[f"metadata-method:{tag}"] = (f"sample calls client.{calls}, metadata names {cm!r}, the emitted client "
                                                 f"method is {client_method(md_rpc(tag))!r}")
            for node in ast.walk(ast.parse(src)):
                if isinstance(node, ast.ClassDef) and node.name == want_cls:
                    for f in node.body:
                        if isinstance(f, (ast.FunctionDef, ast.AsyncFunctionDef)) and f.name == client_method(md_rpc(tag)):
                            want_params = [a.arg for a in f.args.args[1:]] + [a.arg for a in f.args.kwonlyargs]
            rpc_desc = [m for svc in fdps[0].service if svc.name == svc_name for m in svc.method if m.name == md_rpc(tag)]
            rtype = md["clientMethod"].get("resultType", "")
            if rpc_desc and rtype and rtype.startswith("Iterable[") != bool(rpc_desc[0].server_streaming):
                ok = False
                bad[f"metadata-result:{tag}"] = (f"snippet metadata resultType {rtype!r}, but the RPC "
                                                 f"{'streams' if rpc_desc[0].server_streaming else 'does not stream'} its reply")
            got_params = [p_.get("name") for p_ in md["clientMethod"].get("parameters", [])]
            if want_params is not None and got_params != want_params:
                ok = False
                bad[f"metadata-params:{tag}"] = f"snippet metadata parameters {got_params} != emitted client signature {want_params}"
            if ok:
                oks.append(f"metadata:{tag}")
            else:
                bad[f"metadata:{tag}"] = f"snippet metadata entry does not match the file: {json.dumps(md)[:300]}"
    for tag, names in tags.items():
        if len(names) != 1:
            bad[f"unique:{tag}"] = f"region tag used by {names}"
    from google.api import client_pb2
    for rpc in rpcs:
        for kind in ("sync", "async"):
            svc = svc_of[rpc]
            short = svc.options.Extensions[client_pb2.default_host].split(".")[0]
            want = f"{short}_v1_generated_{svc.name}_{rpc}_{kind}"
            if want in tags:
                oks.append(f"sample:{want}")
            else:
                bad[f"sample:{want}"] = "no sample with this region tag was emitted"
    return oks, bad, g


def body(chk: core.Check):
    quick = chk.tier == "quick"
    chk.engines |= {"CH (CrossHair 0.0.110 + z3), selector-symbolic, realised-untraced", "RX (z3 regex)"}
    nlines = 12 if quick else 16
    chk.bound("sample_lines", nlines)
    chk.stubs.append(gen.PANDOC_STUB_NOTE)
    chk.outside += ["executing the samples against a server", "result / parameter TYPES in the snippet metadata (names are compared)"]
    src = open(f"{core.REPO}/gapic/samplegen_utils/snippet_index.py").read()
    i = src.index("def _parse_snippet_segments")
    chk.encoded("gapic/samplegen_utils/snippet_index.py: Snippet._parse_snippet_segments/full_snippet", src[i:i + 3000])
    env = {"VERIF_LINES": str(nlines)}
    res = ch.run(H, ["segments"], timeout=600 if quick else 3000, env=env, jobs=1)
    ch.settle(chk, H, res, "segments")
    chk.sample({"harness": "h14_snippet.segments", "status": res[0]["status"], "seconds": res[0]["seconds"]})
    cn = ch.run(H, ["segments"], timeout=600, env=dict(env, VERIF_CANARY="end-inclusive"), jobs=1)[0]
    chk.canary("FULL segment including the END tag line (in-memory mutant)", cn["status"] == "refuted", cn.get("call", cn["status"]))
    chk.twin("segments: marker layouts exist for the line count", nlines >= 6)
    # (2) region-tag language
    t0 = time.time()
    ident = z3.Plus(z3.Union(z3.Range("a", "z"), z3.Range("A", "Z"), z3.Range("0", "9")))
    low = z3.Plus(z3.Union(z3.Range("a", "z"), z3.Range("0", "9")))
    version = z3.Concat(z3.Re("v"), z3.Plus(z3.Range("0", "9")),
                        z3.Option(z3.Concat(z3.Union(z3.Re("alpha"), z3.Re("beta"), z3.Re("p1beta")), z3.Star(z3.Range("0", "9")))))
    built = z3.Concat(low, z3.Re("_"), version, z3.Re("_generated_"), ident, z3.Re("_"), ident, z3.Re("_"),
                      z3.Union(z3.Re("sync"), z3.Re("async")))
    sol = rx.Solver(60)
    s = z3.String("tag")
    r, m = sol.check(z3.InRe(s, built), z3.Not(z3.InRe(s, rx.match_language(TAG_RE))))
    if r == "unsat":
        chk.ok("region-tag-language", "built tags within the documented format", time.time() - t0)
    elif r == "sat":
        chk.fail_inconclusive(f"region tag model {rx.py_string(m, s)!r} outside the documented format (oracle grammar too wide?)")
    else:
        chk.fail_inconclusive("region-tag language query: solver " + r)
    ssrc = open(f"{core.REPO}/gapic/samplegen/samplegen.py").read()
    i = ssrc.index("def generate_sample_specs")
    chk.encoded("gapic/samplegen/samplegen.py: generate_sample_specs (region tag format)", ssrc[i:i + 2200])
    # (3)
    oks, bad, g = program_diff()
    chk.programs += 1
    for k in oks:
        chk.ok("samples (concrete)", k)
    for k, text in bad.items():
        chk.violation(k, text, {"kind": "program", "diff_key": k})


def replay(chk, data):
    if data.get("kind") == "program":
        _o, bad, _g = program_diff()
        return bad.get(data["diff_key"])
    rep, detail = ch.replay_call(os.path.join(core.VERIF, data["harness"]), data["call"], data.get("env"))
    return f"{data['call']} -> {detail}" if rep else None


if __name__ == "__main__":
    core.run_check("C14", __doc__.strip().splitlines()[0], body, replay)
