"""C20 helper: which comment reaches the docstring.  BSTR on the real `Metadata.doc` (gapic/schema/metadata.py) with a
stand-in `documentation` whose comment fields are symbolic strings:

  for ALL leading / trailing comments and up to two detached comments within the length bound, the words of
  `Metadata.doc` are exactly the words of the first non-empty source in the order leading, trailing, detached
  (detached comments in their order) -- nothing dropped, duplicated, reordered or mixed in from another source;
  with no comment at all the result is the empty string.
"""
from __future__ import annotations

import os
from types import SimpleNamespace as NS

from lib import bstr, core

META = os.path.join(core.REPO, "gapic/schema/metadata.py")
DOC_ALPHA = [ord(c) for c in "ab \n"]


def load_doc(source=None):
    fn, src = bstr.load_function(META, "Metadata.doc", {}, source=source)
    if isinstance(fn, property):
        fn = fn.fget
    return fn, src


def py_doc_violation(leading, trailing, detached):
    from google.protobuf import descriptor_pb2
    from gapic.schema import metadata
    loc = descriptor_pb2.SourceCodeInfo.Location(leading_comments=leading, trailing_comments=trailing,
                                                 leading_detached_comments=detached)
    got = metadata.Metadata(documentation=loc).doc
    want = leading if leading else trailing if trailing else "\n\n".join(detached)
    if got.split() != want.split():
        return (f"Metadata.doc for leading={leading!r} trailing={trailing!r} detached={detached!r} is {got!r}: words "
                f"{got.split()} != {want.split()}")
    return None


def doc_task(task):
    """one (len(leading), len(trailing), detached lengths) partition"""
    fn, _ = load_doc(task.get("source"))
    ll, lt, ld = task["ll"], task["lt"], tuple(task["ld"])
    lead, trail = bstr.fresh_string("L", ll), bstr.fresh_string("T", lt)
    det = [bstr.fresh_string(f"D{i}", n) for i, n in enumerate(ld)]
    base = []
    for s in [lead, trail] + det:
        base += bstr.alphabet_constraints(s, DOC_ALPHA)
    leaves = 0
    ctx = None

    def run():
        me = NS(documentation=NS(leading_comments=lead, trailing_comments=trail, leading_detached_comments=list(det)))
        out = bstr.S(fn(me))
        if ll:
            want = lead
        elif lt:
            want = trail
        else:
            want = bstr.S("\n\n").join(det) if det else bstr.S("")
        return out.split(), want.split()
    for ctx, (wo, ww) in bstr.explore(run, base):
        leaves += 1
        phi = (len(wo) == len(ww)) and bstr.b_and([bstr.eq_chars(a.c, b.c) for a, b in zip(wo, ww)])
        ok, m = ctx.valid(phi)
        if not ok:
            cex = (bstr.model_string(m, lead), bstr.model_string(m, trail), [bstr.model_string(m, d) for d in det])
            return leaves, ctx.checks, ctx.solver_s, cex, task
    return leaves, (ctx.checks if ctx else 0), (ctx.solver_s if ctx else 0.0), None, task


def tasks(maxlen):
    out = []
    for ll in range(maxlen + 1):
        for lt in range(maxlen + 1):
            for ld in [(), (1,), (2,), (1, 1), (2, 1), (0, 2)]:
                if ll and (lt > 1 or len(ld) > 1):
                    continue          # leading present: the other sources only need to be non-empty once
                out.append(dict(ll=ll, lt=lt, ld=ld))
    return out
