"""C18 -- auto-populated request ids obey AIP-4235 at generation time and at call time.

(1) validation: the real API.enforce_valid_method_settings on descriptor stand-ins, for ALL settings lists
    (<= 3 entries; existing / missing / duplicate selectors), streaming bits and field declarations
    (exists, top-level, proto type, required, uuid4 format), against the AIP-4235 predicate  [CrossHair/z3]
(2) population: emitted sync and asyncio client methods (and the REST path, which shares the client
    method), for ALL presence/value patterns of an `optional` and a plain auto-populated field:
    caller values are never altered, unset (resp. empty) fields get fresh, pairwise different values,
    nothing else on the request changes  [CrossHair/z3]
(3) the path real generation takes into the validator (API.all_method_settings) rejects duplicates  [concrete]
"""
from __future__ import annotations

import os

from checks import _client
from lib import apis, ch, core, gen

H_VAL = os.path.join(core.VERIF, "harness", "h18_validate.py")


def body(chk: core.Check):
    _client.common(chk)
    quick = chk.tier == "quick"
    timeout = 240 if quick else 1200
    chk.bound("auto_populated_fields_per_entry", 2)
    chk.bound("crosshair_per_condition_timeout_s", timeout)
    chk.outside += ["RFC-4122 formatting of the value (uuid.uuid4 itself)"]
    g = _client.render(chk)
    hm = ch.load_module(_client.HARNESS, {"VERIF_EMITTED": g.outdir})
    _client.encode_sources(chk, g, ["create_book"])
    api_src = open(f"{core.REPO}/gapic/schema/api.py").read()
    i = api_src.index("def enforce_valid_method_settings")
    chk.encoded("gapic/schema/api.py: API.enforce_valid_method_settings", api_src[i:i + 5200])
    i = api_src.index("def all_method_settings")
    chk.encoded("gapic/schema/api.py: API.all_method_settings", api_src[i:i + 1500])
    # REST path: the REST transport is reached through the same client method; confirm that the emitted
    # rest transport does not touch the auto-populated fields itself (concrete, textual)
    rest = g.text("services/library/transports/rest.py") + g.text("services/library/transports/rest_base.py")
    if "uuid" in rest:
        chk.fail_inconclusive("emitted REST transport mentions uuid: population is no longer only in the client method")
    else:
        chk.ok("rest-shares-client-path (concrete)", "rest.py")
    _client.run_funcs(
        chk, g, hm.C18_FUNCS, "populate", timeout,
        canaries=[("uuid-always", "uuid_create_book", "request_id populated even when the caller set it (in-memory mutant)")])
    # (1) validation
    parts = [{"VERIF_PART": str(i)} for i in range(5)]
    nmax = "2" if quick else "3"
    chk.bound("settings_entries", int(nmax))
    chk.stubs.append("yaml.dump (error text rendering inside the validator) replaced by a constant-time stub")
    res = ch.run(H_VAL, ["validate_single", "validate_multi"], timeout=timeout, env={"VERIF_NMAX": nmax}, jobs=chk.jobs, partitions=parts)
    ch.settle(chk, H_VAL, res, "validate")
    for r in res[:2]:
        chk.sample({"harness": "h18_validate." + r["func"], "partition": r["env"], "status": r["status"], "seconds": r["seconds"]})
    tw = ch.run(H_VAL, ["twin"], timeout=120, env={}, jobs=1)[0]
    chk.twin("validate: a fully valid two-entry settings list is reachable", tw["status"] == "refuted")
    cn = ch.run(H_VAL, ["validate_multi"], timeout=timeout, env={"VERIF_CANARY": "no-dup", "VERIF_PART": "0", "VERIF_NMAX": "2"}, jobs=1)[0]
    chk.canary("validator without the duplicate-selector rejection (in-memory mutant)", cn["status"] == "refuted",
               cn.get("call", cn["status"]))
    cn = ch.run(H_VAL, ["validate_single"], timeout=timeout, env={"VERIF_CANARY": "allow-required", "VERIF_PART": "0"}, jobs=1)[0]
    chk.canary("validator accepting required fields (in-memory mutant)", cn["status"] == "refuted",
               cn.get("call", cn["status"]))
    # (3) generation path: duplicates in the YAML must be rejected by API.build / all_method_settings
    from gapic.schema import api as api_mod
    yaml = dict(apis.CLIENT_SERVICE_YAML)
    sel = "google.example.cl.v1.Library.CreateBook"
    yaml["publishing"] = {"method_settings": [{"selector": sel, "auto_populated_fields": ["request_id"]},
                                              {"selector": sel}]}
    try:
        gen.generate(apis.client_api(), parameter="transport=grpc", service_yaml=yaml)
        chk.violation("generation-accepts-duplicate-selector",
                      "a service YAML listing the same selector twice was accepted by generation",
                      {"kind": "gen-dup"})
    except api_mod.MethodSettingsError:
        chk.ok("generation-rejects-duplicates (concrete)", sel)
    for bad, why in (({"selector": "google.example.cl.v1.Library.StreamBooks", "auto_populated_fields": ["parent"]}, "streaming"),
                     ({"selector": "google.example.cl.v1.Library.Nope", "auto_populated_fields": []}, "missing method"),
                     ({"selector": sel, "auto_populated_fields": ["book_id"]}, "no uuid4 format"),
                     ({"selector": sel, "auto_populated_fields": ["book.name"]}, "nested field")):
        yaml["publishing"] = {"method_settings": [bad]}
        try:
            gen.generate(apis.client_api(), parameter="transport=grpc", service_yaml=yaml)
            chk.violation(f"generation-accepts:{why}", f"generation accepted an invalid setting ({why})", {"kind": "gen"})
        except api_mod.MethodSettingsError:
            chk.ok("generation-rejects (concrete)", why)


def replay(chk, data):
    if str(data.get("harness", "")).endswith("h18_validate.py"):
        rep, detail = ch.replay_call(os.path.join(core.VERIF, data["harness"]), data["call"], data.get("env"))
        return f"{data['call']} -> {detail}" if rep else None
    if data.get("kind", "").startswith("gen"):
        return data["text"]
    return _client.replay(chk, data)


if __name__ == "__main__":
    core.run_check("C18", __doc__.strip().splitlines()[0], body, replay)
