"""C17 -- mixin RPCs are exposed exactly as configured in the service YAML (selection clause).

 (1) CrossHair/z3 over the REAL API.build + mixin_api_methods / has_*_mixin / _has_iam_overrides / mixin_http_options:
     for ALL subsets of the three mixin APIs under `apis`, rule sets per API, an unrelated rule, and the API defining an
     IAM RPC itself (in the first or in a later service): exposed set = {RPC of a listed API that has a rule}; IAM
     mixins yield entirely to a same-named RPC of the API; REST option rows equal the YAML rule.
 (2) per rendered program (concrete): the emitted sync/async clients define exactly the selected mixin methods, the
     gRPC stub each of them dispatches through has the canonical /google.<...>/<Method> path with the standard request
     and response types, the add-iam-methods option (alone and together with the IAM mixin) exposes the three IAM RPCs
     on sync and async clients alike.
 (3) CrossHair/z3 over the EMITTED mixin methods (harness/h17_call.py): for ALL (mixin RPC, request kind, routing
     value, options) exactly one dispatch on the right wrapped method with the standard request type, the routing
     header (name|resource = value) appended to the caller's metadata, the caller's retry/timeout, reply handed back.
"""
from __future__ import annotations

import ast
import os
import re

from lib import ch, core, gen

H = os.path.join(core.VERIF, "harness", "h17_mixins.py")
HC = os.path.join(core.VERIF, "harness", "h17_call.py")
TYPES = {"GetOperation": ("GetOperationRequest", "Operation"), "CancelOperation": ("CancelOperationRequest", None),
         "ListOperations": ("ListOperationsRequest", "ListOperationsResponse"), "DeleteOperation": ("DeleteOperationRequest", None),
         "WaitOperation": ("WaitOperationRequest", "Operation"), "SetIamPolicy": ("SetIamPolicyRequest", "Policy"),
         "GetIamPolicy": ("GetIamPolicyRequest", "Policy"), "TestIamPermissions": ("TestIamPermissionsRequest", "TestIamPermissionsResponse"),
         "GetLocation": ("GetLocationRequest", "Location"), "ListLocations": ("ListLocationsRequest", "ListLocationsResponse")}
CANON = {"GetOperation": "/google.longrunning.Operations/GetOperation", "CancelOperation": "/google.longrunning.Operations/CancelOperation",
         "ListOperations": "/google.longrunning.Operations/ListOperations", "DeleteOperation": "/google.longrunning.Operations/DeleteOperation",
         "WaitOperation": "/google.longrunning.Operations/WaitOperation", "SetIamPolicy": "/google.iam.v1.IAMPolicy/SetIamPolicy",
         "GetIamPolicy": "/google.iam.v1.IAMPolicy/GetIamPolicy", "TestIamPermissions": "/google.iam.v1.IAMPolicy/TestIamPermissions",
         "GetLocation": "/google.cloud.location.Locations/GetLocation", "ListLocations": "/google.cloud.location.Locations/ListLocations"}


def snake(n):
    return re.sub(r"(?<!^)(?=[A-Z])", "_", n).lower()


def methods_of(src, cls):
    for n in ast.parse(src).body:
        if isinstance(n, ast.ClassDef) and n.name == cls:
            return {f.name for f in n.body if isinstance(f, (ast.FunctionDef, ast.AsyncFunctionDef))}
    return set()


def all_mixins_yaml(hm):
    return {"type": "google.api.Service", "apis": [{"name": "google.longrunning.Operations"}, {"name": "google.iam.v1.IAMPolicy"},
                                                   {"name": "google.cloud.location.Locations"}],
            "http": {"rules": [hm.rule_for(m) for m in sorted(CANON)]}}


def program_diff(label):
    from checks.c03 import stub_cache_problems, stub_table
    hm = ch.load_module(H)
    all_mixins = set(CANON)
    if label == "all":
        exp = set(CANON)
        g = gen.generate(hm.files(0), parameter="transport=grpc+rest", service_yaml=all_mixins_yaml(hm))
    elif label == "yaml+add-iam-methods":
        # the legacy option together with the IAM mixin in the YAML: the three IAM RPCs on sync and async alike
        exp = {"GetOperation", "SetIamPolicy", "GetIamPolicy", "TestIamPermissions"}
        yaml_cfg = {"type": "google.api.Service", "apis": [{"name": "google.longrunning.Operations"}, {"name": "google.iam.v1.IAMPolicy"}],
                    "http": {"rules": [hm.rule_for(m) for m in sorted(exp)]}}
        g = gen.generate(hm.files(0), parameter="transport=grpc+rest,add-iam-methods", service_yaml=yaml_cfg)
    elif label == "yaml":
        exp = {"GetOperation", "CancelOperation", "SetIamPolicy", "GetIamPolicy", "TestIamPermissions", "GetLocation"}
        rules = [hm.rule_for(m) for m in sorted(exp)]
        yaml_cfg = {"type": "google.api.Service", "apis": [{"name": "google.longrunning.Operations"}, {"name": "google.iam.v1.IAMPolicy"},
                                                           {"name": "google.cloud.location.Locations"}], "http": {"rules": rules}}
        g = gen.generate(hm.files(0), parameter="transport=grpc+rest", service_yaml=yaml_cfg)
    elif label == "none":
        exp = set()
        g = gen.generate(hm.files(0), parameter="transport=grpc+rest")
    else:
        exp = {"SetIamPolicy", "GetIamPolicy", "TestIamPermissions"}
        g = gen.generate(hm.files(0), parameter="transport=grpc+rest,add-iam-methods")
    bad, oks = {}, []
    for svc in ("alpha", "beta"):
        cname = svc.capitalize()
        sync = methods_of(g.text(f"services/{svc}/client.py"), f"{cname}Client")
        asyn = methods_of(g.text(f"services/{svc}/async_client.py"), f"{cname}AsyncClient")
        for kind, have in (("sync", sync), ("async", asyn)):
            got = {m for m in all_mixins if snake(m) in have}
            key = f"{label}:{svc}:{kind}"
            if got == exp:
                oks.append(key)
            else:
                bad[key] = f"{kind} client of {cname} exposes mixins {sorted(got)}, configured {sorted(exp)}"
        grpc = g.text(f"services/{svc}/transports/grpc.py")
        tables = {"grpc": stub_table(grpc, "GrpcTransport"),
                  "grpc_asyncio": stub_table(g.text(f"services/{svc}/transports/grpc_asyncio.py"), "GrpcAsyncIOTransport")}
        srcs = {"grpc": g.text(f"services/{svc}/client.py"), "grpc_asyncio": g.text(f"services/{svc}/async_client.py")}
        # the stub cache is per transport instance: mixin and API stubs must not share a key
        for tname, fname, suffix in (("grpc", "grpc.py", "GrpcTransport"), ("grpc_asyncio", "grpc_asyncio.py", "GrpcAsyncIOTransport")):
            _keys, kbad = stub_cache_problems(g.text(f"services/{svc}/transports/{fname}"), suffix)
            if kbad:
                for prop, text in kbad.items():
                    bad[f"{label}:{svc}:stub-cache:{tname}:{prop}"] = text
            else:
                oks.append(f"{label}:{svc}:stub-cache:{tname}")
        for m in exp:
            for tname, table in tables.items():
                key = f"{label}:{svc}:stub:{tname}:{m}"
                # mixin methods look the wrapped method up; the legacy IAM methods wrap transport.<rpc> on the fly
                mm = re.search(rf"def {snake(m)}\(\s*self\b.*?(?:_wrapped_methods\[|wrap_method\(\s*)self\.(?:_client\.)?_transport\.(\w+)\b",
                               srcs[tname], re.S)
                attr = mm.group(1) if mm else None
                got = table.get(attr)
                req_t, rsp_t = TYPES[m]
                ok = (got is not None and got[0] == "unary_unary" and got[1] == CANON[m]
                      and str(got[2]).endswith(f"{req_t}.SerializeToString")
                      and (str(got[3]).endswith(f"{rsp_t}.FromString") if rsp_t else got[3] in (None, "None")))
                if ok:
                    oks.append(key)
                else:
                    bad[key] = (f"{snake(m)} of the {tname} client of {cname} dispatches through transport.{attr}; its stub "
                                f"{got} is not (unary_unary, {CANON[m]}, {req_t}, {rsp_t})")
        for m in all_mixins - exp:
            if CANON[m] in grpc:
                bad[f"{label}:{svc}:stub-extra:{m}"] = f"gRPC transport of {cname} has a stub for the unconfigured {m}"
    return oks, bad


def body(chk: core.Check):
    chk.engines.add("CH (CrossHair 0.0.110 + z3), selector-symbolic, realised-untraced")
    chk.bound("yaml_space", "8 subsets of the mixin APIs x 4 Operations rule sets x 3 IAM rule sets x 3 Locations rule sets x 3 rule orders "
              "(grouped, reversed, interleaved) x "
              "unrelated rule on/off x API-defined IAM RPC in {none, first service, later service, other IAM RPC}")
    chk.assumptions.append("IAM mixins yield all-or-nothing when the API defines any IAM RPC (the code's documented reading)")
    chk.stubs.append(gen.PANDOC_STUB_NOTE)
    chk.outside += ["the wire below transport._wrapped_methods (channel, HTTP session)", "REST calls of the mixin RPCs (the rule rows "
                    "are compared, not the HTTP request)"]
    src = open(f"{core.REPO}/gapic/schema/api.py").read()
    i = src.index("def mixin_api_methods")
    chk.encoded("gapic/schema/api.py: API.mixin_api_methods/mixin_http_options", src[i:i + 1400])
    i = src.index("def has_location_mixin")
    chk.encoded("gapic/schema/api.py: has_*_mixin/_has_iam_overrides/_get_methods_from_service", src[i:i + 3300])
    parts = [{"VERIF_PART": str(i)} for i in range(8)]
    res = ch.run(H, ["selection"], timeout=400, env={}, jobs=chk.jobs, partitions=parts)
    ch.settle(chk, H, res, "selection")
    for r in res[:2]:
        chk.sample({"harness": "h17_mixins.selection", "partition": r["env"].get("VERIF_PART"), "status": r["status"], "seconds": r["seconds"]})
    cn = ch.run(H, ["selection"], timeout=400, env={"VERIF_CANARY": "first-service-only", "VERIF_PART": "2"}, jobs=1)[0]
    chk.canary("_has_iam_overrides looking at the first service only (in-memory mutant)", cn["status"] == "refuted", cn.get("call", cn["status"]))
    chk.twin("selection: every partition confirmed over a non-empty path set", all(r["status"] != "no_precondition" for r in res))
    for label in ("yaml", "none", "add-iam-methods", "yaml+add-iam-methods", "all"):
        oks, bad = program_diff(label)
        chk.programs += 1
        for k in oks:
            chk.ok("emitted-mixins (concrete)", k)
        for k, text in bad.items():
            chk.violation(k, text, {"kind": "program", "label": label, "diff_key": k})
    if chk.only("call"):
        call_part(chk)


def call_part(chk):
    """emitted mixin methods of a program with all ten mixins: dispatch, request type, routing header, options, reply"""
    hm = ch.load_module(H)
    g = gen.generate(hm.files(0), parameter="transport=grpc+rest", service_yaml=all_mixins_yaml(hm))
    chk.programs += 1
    env = {"VERIF_EMITTED": g.outdir}
    for which in ("client", "async_client"):
        src = g.text(f"services/alpha/{which}.py")
        i = src.index("def list_operations")
        chk.encoded(f"emitted services/alpha/{which}.py: the ten mixin methods", src[i:])
    chk.encoded("gapic/templates/.../services/%service/_mixins.py.j2", open(f"{core.REPO}/gapic/templates/%namespace/%name_%version/%sub/services/%service/_mixins.py.j2").read())
    chk.encoded("gapic/templates/.../services/%service/_async_mixins.py.j2", open(f"{core.REPO}/gapic/templates/%namespace/%name_%version/%sub/services/%service/_async_mixins.py.j2").read())
    chk.bound("mixin_calls", "10 mixin RPCs x request kind {dict, message} x 3 routing values (incl. empty and one with a blank) x "
              "options {given, defaulted}; sync and asyncio")
    chk.stubs += ["transport._wrapped_methods entries are recorders (lib/fakes.py); gapic_v1.routing_header.to_grpc_metadata "
                  "records its argument; the request classes are the REAL operations_pb2 / iam_policy_pb2 / locations_pb2 classes"]
    res = ch.run(HC, ["mixin_call"], timeout=300, env=env, jobs=chk.jobs)
    ch.settle(chk, HC, res, "mixin-call")
    for r in res:
        chk.sample({"harness": "h17_call." + r["func"], "status": r["status"], "seconds": r["seconds"]})
    tw = ch.run(HC, ["twin"], timeout=300, env=env, jobs=1)[0]
    chk.twin("mixin_call: test_iam_permissions(message, value with a blank, defaulted options) reaches the comparison", tw["status"] == "refuted")
    import concurrent.futures as cf
    cans = [("wrong-mixin-rpc", "sync cancel_operation dispatching through transport.delete_operation (in-memory mutant)"),
            ("async-drops-metadata", "async get_location dropping the caller's metadata (in-memory mutant)")]
    with cf.ThreadPoolExecutor(max_workers=2) as ex:
        futs = [(c, ex.submit(ch.run, HC, ["mixin_call"], 300, dict(env, VERIF_CANARY=c[0]), 1)) for c in cans]
        for c, f in futs:
            r = f.result()[0]
            chk.canary(c[1], r["status"] == "refuted", r.get("call", r["status"]))


def replay(chk, data):
    if str(data.get("harness", "")).endswith("h17_call.py"):
        hm = ch.load_module(H)
        g = gen.generate(hm.files(0), parameter="transport=grpc+rest", service_yaml=all_mixins_yaml(hm))
        env = dict(data.get("env") or {})
        env["VERIF_EMITTED"] = g.outdir
        rep, detail = ch.replay_call(HC, data["call"], env)
        return f"{data['call']} -> {detail}" if rep else None
    if data.get("kind") == "program":
        _o, bad = program_diff(data["label"])
        return bad.get(data["diff_key"])
    rep, detail = ch.replay_call(os.path.join(core.VERIF, data["harness"]), data["call"], data.get("env"))
    return f"{data['call']} -> {detail}" if rep else None


if __name__ == "__main__":
    core.run_check("C17", __doc__.strip().splitlines()[0], body, replay)
