"""C17 -- mixin RPCs are exposed exactly as configured in the service YAML (selection clause).

 (1) CrossHair/z3 over the REAL API.build + mixin_api_methods / has_*_mixin / _has_iam_overrides / mixin_http_options:
     for ALL subsets of the three mixin APIs under `apis`, rule sets per API, an unrelated rule, and the API defining an
     IAM RPC itself (in the first or in a later service): exposed set = {RPC of a listed API that has a rule}; IAM
     mixins yield entirely to a same-named RPC of the API; REST option rows equal the YAML rule.
 (2) per rendered program (concrete): the emitted sync/async clients define exactly the selected mixin methods, the
     gRPC stub paths are the canonical /google.<...>/<Method>, the add-iam-methods option exposes the three IAM RPCs on
     sync and async clients alike.
"""
from __future__ import annotations

import ast
import os
import re

from lib import ch, core, gen

H = os.path.join(core.VERIF, "harness", "h17_mixins.py")
CANON = {"GetOperation": "/google.longrunning.Operations/GetOperation", "CancelOperation": "/google.longrunning.Operations/CancelOperation",
         "ListOperations": "/google.longrunning.Operations/ListOperations", "DeleteOperation": "/google.longrunning.Operations/DeleteOperation",
         "WaitOperation": "/google.longrunning.Operations/WaitOperation", "SetIamPolicy": "/google.iam.v1.IAMPolicy/SetIamPolicy",
         "GetIamPolicy": "/google.iam.v1.IAMPolicy/GetIamPolicy", "TestIamPermissions": "/google.iam.v1.IAMPolicy/TestIamPermissions",
         "GetLocation": "/google.cloud.location.Locations/GetLocation", "ListLocations": "/google.cloud.location.Locations/ListLocations"}


def snake(n):
    return re.sub(r"(?<!^)(?=[A-Z])", "_", n).lower()


def methods_of(src, cls):
    for n in ast.parse(src).body:
        if isinstance(n, ast.ClassDef) and n.name == cls:
            return {f.name for f in n.body if isinstance(f, (ast.FunctionDef, ast.AsyncFunctionDef))}
    return set()


def program_diff(label):
    hm = ch.load_module(H)
    all_mixins = set(CANON)
    if label == "yaml":
        exp = {"GetOperation", "CancelOperation", "SetIamPolicy", "GetIamPolicy", "TestIamPermissions", "GetLocation"}
        rules = [hm.rule_for(m) for m in sorted(exp)]
        yaml_cfg = {"type": "google.api.Service", "apis": [{"name": "google.longrunning.Operations"}, {"name": "google.iam.v1.IAMPolicy"},
                                                           {"name": "google.cloud.location.Locations"}], "http": {"rules": rules}}
        g = gen.generate(hm.files(0), parameter="transport=grpc+rest", service_yaml=yaml_cfg)
    elif label == "none":
        exp = set()
        g = gen.generate(hm.files(0), parameter="transport=grpc+rest")
    else:
        exp = {"SetIamPolicy", "GetIamPolicy", "TestIamPermissions"}
        g = gen.generate(hm.files(0), parameter="transport=grpc+rest,add-iam-methods")
    bad, oks = {}, []
    for svc in ("alpha", "beta"):
        cname = svc.capitalize()
        sync = methods_of(g.text(f"services/{svc}/client.py"), f"{cname}Client")
        asyn = methods_of(g.text(f"services/{svc}/async_client.py"), f"{cname}AsyncClient")
        for kind, have in (("sync", sync), ("async", asyn)):
            got = {m for m in all_mixins if snake(m) in have}
            key = f"{label}:{svc}:{kind}"
            if got == exp:
                oks.append(key)
            else:
                bad[key] = f"{kind} client of {cname} exposes mixins {sorted(got)}, configured {sorted(exp)}"
        grpc = g.text(f"services/{svc}/transports/grpc.py")
        for m in exp:
            key = f"{label}:{svc}:stub:{m}"
            if f'"{CANON[m]}"' in grpc or f"'{CANON[m]}'" in grpc:
                oks.append(key)
            else:
                bad[key] = f"gRPC transport of {cname} has no stub for {CANON[m]}"
        for m in all_mixins - exp:
            if CANON[m] in grpc:
                bad[f"{label}:{svc}:stub-extra:{m}"] = f"gRPC transport of {cname} has a stub for the unconfigured {m}"
    return oks, bad


def body(chk: core.Check):
    chk.engines.add("CH (CrossHair 0.0.110 + z3), selector-symbolic, realised-untraced")
    chk.bound("yaml_space", "8 subsets of the mixin APIs x 4 Operations rule sets x 3 IAM rule sets x 3 Locations rule sets x 3 rule orders "
              "(grouped, reversed, interleaved) x "
              "unrelated rule on/off x API-defined IAM RPC in {none, first service, later service, other IAM RPC}")
    chk.assumptions.append("IAM mixins yield all-or-nothing when the API defines any IAM RPC (the code's documented reading)")
    chk.stubs.append(gen.PANDOC_STUB_NOTE)
    chk.outside += ["calling the mixin methods (gRPC / HTTP)", "request/response types of the mixin RPCs on the wire"]
    src = open(f"{core.REPO}/gapic/schema/api.py").read()
    i = src.index("def mixin_api_methods")
    chk.encoded("gapic/schema/api.py: API.mixin_api_methods/mixin_http_options", src[i:i + 1400])
    i = src.index("def has_location_mixin")
    chk.encoded("gapic/schema/api.py: has_*_mixin/_has_iam_overrides/_get_methods_from_service", src[i:i + 3300])
    parts = [{"VERIF_PART": str(i)} for i in range(8)]
    res = ch.run(H, ["selection"], timeout=400, env={}, jobs=chk.jobs, partitions=parts)
    ch.settle(chk, H, res, "selection")
    for r in res[:2]:
        chk.sample({"harness": "h17_mixins.selection", "partition": r["env"].get("VERIF_PART"), "status": r["status"], "seconds": r["seconds"]})
    cn = ch.run(H, ["selection"], timeout=400, env={"VERIF_CANARY": "first-service-only", "VERIF_PART": "2"}, jobs=1)[0]
    chk.canary("_has_iam_overrides looking at the first service only (in-memory mutant)", cn["status"] == "refuted", cn.get("call", cn["status"]))
    chk.twin("selection: every partition confirmed over a non-empty path set", all(r["status"] != "no_precondition" for r in res))
    for label in ("yaml", "none", "add-iam-methods"):
        oks, bad = program_diff(label)
        chk.programs += 1
        for k in oks:
            chk.ok("emitted-mixins (concrete)", k)
        for k, text in bad.items():
            chk.violation(k, text, {"kind": "program", "label": label, "diff_key": k})


def replay(chk, data):
    if data.get("kind") == "program":
        _o, bad = program_diff(data["label"])
        return bad.get(data["diff_key"])
    rep, detail = ch.replay_call(os.path.join(core.VERIF, data["harness"]), data["call"], data.get("env"))
    return f"{data['call']} -> {detail}" if rep else None


if __name__ == "__main__":
    core.run_check("C17", __doc__.strip().splitlines()[0], body, replay)
