"""C10 helper: is the key function of a `sorted(<set of str>, key=<lambda>)` site injective on strings?

sorted() over a set is order-insensitive iff no two distinct elements share a key (ties keep the set's iteration
order, which follows the hash seed).  The lambda's body is run by the BSTR engine on two symbolic strings of every
length pair within the bound; at every leaf the obligation  key(s1) == key(s2)  ->  s1 == s2  is a z3 validity query.
A model is confirmed by evaluating the real lambda in CPython before it is reported.
"""
from __future__ import annotations

import ast

from lib import bstr

ALPHA = [ord(c) for c in "aA# b"]


def _load(lambda_src):
    node = ast.parse(lambda_src, mode="eval").body
    if not isinstance(node, ast.Lambda) or len(node.args.args) != 1:
        raise bstr.Unsupported("key is not a one-argument lambda")
    arg = node.args.args[0].arg
    src = f"def _k({arg}):\n    return {ast.unparse(node.body)}\n"
    fn, _ = bstr.load_function("<sorted-key>", "_k", {}, source=src)
    return fn


def _eq(a, b):
    if isinstance(a, bstr.SymStr) and isinstance(b, bstr.SymStr):
        if len(a) != len(b):
            return False
        return bstr.eq_chars(a.c, b.c)
    if isinstance(a, (tuple, list)) and isinstance(b, (tuple, list)):
        if len(a) != len(b):
            return False
        return bstr.b_and([_eq(x, y) for x, y in zip(a, b)])
    if isinstance(a, (int, bool, type(None))) and isinstance(b, (int, bool, type(None))):
        return a == b
    raise bstr.Unsupported(f"key values of type {type(a).__name__}/{type(b).__name__}")


def key_injective(lambda_src, maxlen=3, alphabet=None):
    """-> ("injective", None, stats) | ("collision", (s1, s2), stats) | ("unknown", reason, stats)"""
    alphabet = alphabet or ALPHA
    stats = {"leaves": 0, "checks": 0, "solver_s": 0.0}
    try:
        fn = _load(lambda_src)
        real = eval(lambda_src, {})          # noqa: S307 -- the source is a lambda taken from /repo's own AST
        for l1 in range(maxlen + 1):
            for l2 in range(l1, maxlen + 1):
                s1, s2 = bstr.fresh_string("p", l1), bstr.fresh_string("q", l2)
                base = bstr.alphabet_constraints(s1, alphabet) + bstr.alphabet_constraints(s2, alphabet)
                ctx = None
                for ctx, (k1, k2) in bstr.explore(lambda: (fn(s1), fn(s2)), base):
                    stats["leaves"] += 1
                    same_key = _eq(k1, k2)
                    same_str = _eq(s1, s2)
                    phi = bstr.b_or([bstr.b_not(same_key), same_str])
                    ok, m = ctx.valid(phi)
                    if not ok:
                        a, b = bstr.model_string(m, s1), bstr.model_string(m, s2)
                        stats["checks"] += ctx.checks
                        stats["solver_s"] += ctx.solver_s
                        if a != b and real(a) == real(b):
                            return "collision", (a, b), stats
                        return "unknown", f"model {a!r}/{b!r} does not reproduce in CPython", stats
                if ctx is not None:
                    stats["checks"] += ctx.checks
                    stats["solver_s"] += ctx.solver_s
        return "injective", None, stats
    except bstr.Unsupported as e:
        return "unknown", f"unsupported: {e}", stats
    except Exception as e:  # noqa: BLE001
        return "unknown", f"{type(e).__name__}: {e}", stats
