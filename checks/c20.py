"""C20 -- comments reach docstrings intact; whitespace clean-up never changes code meaning.

BSTR (own bounded symbolic string executor over z3 integer characters, CPython backtracking order) on
the real functions read from /repo's working tree:
 (1) generator/formatter.py fix_whitespace, for ALL strings of two bounded families:
       (a) fix(fix(s)) == fix(s)   (b) result ends with exactly one newline preceded by a non-blank
       (c) NF(fix(s)) == NF(s): only trailing blanks and blank lines may change (NF = strip trailing
           blanks per line, drop blank lines, one final newline) -- the solver-level surrogate of
           "AST unchanged up to whitespace inside string literals"
 (2) utils/rst.py rst (plain-text branch) through the real utils/lines.py wrap: for ALL texts within the
     bound the returned text, placed between triple double-quotes, does not terminate the literal early
     (Python tokenizer rule: backslash escapes the next character, first unescaped triple quote ends it).
 (3) utils/lines.py wrap with a step-by-step model of textwrap (validated against the real textwrap on every run): for
     ALL texts within the bound and several (width, indent, offset) settings incl. widths small enough to force
     re-wrapping, wrap never drops, duplicates or reorders a word, and every output line fits the requested width
     (first line: width - offset) unless it holds a single unbreakable word.
"""
from __future__ import annotations

import itertools
import multiprocessing as mp
import os
import random
import re
import time
from types import SimpleNamespace as NS

import z3

from lib import bstr, core

FMT = os.path.join(core.REPO, "gapic/generator/formatter.py")
RST = os.path.join(core.REPO, "gapic/utils/rst.py")
LINES = os.path.join(core.REPO, "gapic/utils/lines.py")

ALPHA_U = [ord(c) for c in " \n\tx#@_:"]
WS3 = [ord(c) for c in " \n\t"]


# ------------------------------------------------------------------ plain-Python oracles (replay)
def py_nf(s):
    lines = [ln.rstrip(" \t") for ln in s.split("\n")]
    return "\n".join(ln for ln in lines if ln) + "\n"


def py_formatter_violation(s):
    from gapic.generator.formatter import fix_whitespace
    a = fix_whitespace(s)
    if fix_whitespace(a) != a:
        return f"not idempotent on {s!r}: {a!r} -> {fix_whitespace(a)!r}"
    if not a.endswith("\n") or (len(a) > 1 and a[-2] in " \t\n\r\x0b\x0c"):
        return f"fix_whitespace({s!r}) = {a!r} does not end with exactly one newline after a non-blank"
    if py_nf(a) != py_nf(s):
        return f"fix_whitespace({s!r}) = {a!r} changes more than trailing blanks / blank lines"
    return None


def terminates_early(content):
    """Python tokenizer rule for a triple-double-quoted literal whose body is `content`."""
    text = content + '"""'
    i = 0
    while i < len(text):
        if text[i] == "\\":
            i += 2
            continue
        if text.startswith('"""', i):
            return i != len(content)
        i += 1
    return True  # closing quotes were swallowed by an escape: unterminated


def py_rst_violation(text, width, indent, nl, trim=False):
    from gapic.utils.rst import rst
    out = rst(text, width=width, indent=indent, nl=nl)
    if trim:
        out = out.strip()          # what Jinja's `trim` filter does
    if terminates_early(out):
        return (f"rst({text!r}, width={width}, indent={indent}, nl={nl}){'|trim' if trim else ''} = {out!r} terminates a "
                "docstring early")
    return None


def rst_contexts(repo):
    """Every `|rst(...)` use in the templates whose output can be followed DIRECTLY by the closing triple quote (only
    conditional Jinja blocks in between): [(file, line, 'trim' | 'raw')].  Everywhere else a newline of the template
    separates the text from the closing quotes."""
    out = []
    for root in ("gapic/templates", "gapic/ads-templates"):
        for d, _dirs, files in os.walk(os.path.join(repo, root)):
            for f in files:
                if not f.endswith(".j2"):
                    continue
                text = open(os.path.join(d, f)).read()
                for m in re.finditer(r"\|\s*rst\(([^)]*)\)((?:\s*\|\s*\w+(?:\([^)]*\))?)*)\s*-?\}\}", text):
                    nxt = text.find('"""', m.end())
                    if nxt < 0:
                        continue
                    between = text[m.end():nxt]
                    between = re.sub(r"\{#.*?#\}", "", between, flags=re.S)
                    between = re.sub(r"\{%-?\s*if\b.*?\{%-?\s*endif\s*-?%\}", "", between, flags=re.S)
                    if between == "":
                        mode = "trim" if re.search(r"\|\s*(trim|striptags)\b", m.group(2)) else "raw"
                        out.append((os.path.relpath(os.path.join(d, f), repo), text.count("\n", 0, m.start()) + 1, mode))
    return out


# ------------------------------------------------------------------ symbolic NF
def sym_nf(s):
    out = []
    for ln in s.split("\n"):
        ln = ln.rstrip(" \t")
        if len(ln):
            out.append(ln)
    return bstr.S("\n").join(out) + "\n"


def formatter_task(task):
    """One partition of family U or S.  -> (leaves, checks, solver_s, cex | None, key)"""
    kind = task["kind"]
    fw, _ = bstr.load_function(FMT, "fix_whitespace")
    if kind == "U":
        L, prefix = task["L"], task["prefix"]
        s = bstr.SymStr(list(prefix) + [z3.Int(f"c{i}") for i in range(len(prefix), L)])
        base = bstr.alphabet_constraints(s, ALPHA_U)
    else:
        lp, lw, ind, lq, qfix = task["lp"], task["lw"], task["ind"], task["lq"], task["qfix"]
        p = bstr.fresh_string("p", lp)
        w = bstr.fresh_string("w", lw)
        q = bstr.fresh_string("q", lq)
        s = p + w + bstr.S(" " * ind) + q + bstr.S(qfix)
        base = bstr.alphabet_constraints(p, ALPHA_U) + bstr.alphabet_constraints(w, WS3) + \
            bstr.alphabet_constraints(q, ALPHA_U)

    def run():
        nf_s = sym_nf(s)
        a1 = fw(s)
        a2 = fw(a1)
        nf_a = sym_nf(a1)
        return a1, a2, nf_s, nf_a
    leaves = 0
    ctx = None
    for ctx, (a1, a2, nf_s, nf_a) in bstr.explore(run, base):
        leaves += 1
        n = len(a1)
        phi_b = False
        if n >= 1:
            phi_b = bstr.b_and([bstr.c_eq(a1.c[-1], 10)] + ([bstr.b_not(bstr.is_ws(a1.c[-2]))] if n > 1 else []))
        phi = bstr.b_and([bstr.eq_chars(a1.c, a2.c), phi_b, bstr.eq_chars(nf_s.c, nf_a.c)])
        ok, m = ctx.valid(phi)
        if not ok:
            return leaves, ctx.checks, ctx.solver_s, bstr.model_string(m, s), task
    return leaves, (ctx.checks if ctx else 0), (ctx.solver_s if ctx else 0.0), None, task


# ------------------------------------------------------------------ rst guard
def textwrap_model():
    """Short-text model of textwrap.fill / textwrap.wrap (no line ever needs breaking at these lengths):
    whitespace characters become spaces, leading/trailing whitespace is dropped, indent is prefixed."""
    def norm(t):
        t = bstr.S(t).strip()
        return bstr.SymStr([(32 if (isinstance(c, int) and c in bstr.WS_CODES) else
                             (c if isinstance(c, int) else z3.If(bstr.is_ws(c), 32, c))) for c in t.c])

    def fill(text=None, width=70, initial_indent="", subsequent_indent="", break_long_words=True,
             break_on_hyphens=True, **kw):
        t = norm(text)
        if len(bstr.S(initial_indent)) + len(t) > width:
            raise OutOfFamily("text would need wrapping")
        return (bstr.S(initial_indent) + t) if len(t) else bstr.S("")

    def wrap(text, width=70, break_long_words=True, break_on_hyphens=True, **kw):
        t = norm(text)
        if len(t) > width:
            raise OutOfFamily("text would need wrapping")
        return [t] if len(t) else []
    return NS(fill=fill, wrap=wrap)


class OutOfFamily(Exception):
    pass


def load_rst():
    tw = textwrap_model()
    lines_src = open(LINES).read()
    helpers = {}
    for name in ("get_subsequent_line_indentation_level", "is_list_item"):
        fn, _ = bstr.load_function(LINES, name, {"NUMBERED_LIST_REGEX": r"^\d+\. ", "bool": bool}, source=lines_src)
        helpers[name] = fn
    for fn in helpers.values():
        fn.__globals__.update(helpers)
    m = re.search(r'^NUMBERED_LIST_REGEX = r"(.*)"$', lines_src, re.M)
    if not m:
        raise core.Inconclusive("NUMBERED_LIST_REGEX not found in lines.py")
    for fn in helpers.values():
        fn.__globals__["NUMBERED_LIST_REGEX"] = bstr.S(m.group(1))
    wrap, wsrc = bstr.load_function(LINES, "wrap", dict(helpers, textwrap=tw), source=lines_src)
    rst, rsrc = bstr.load_function(RST, "rst", {"wrap": wrap, "pypandoc": None})
    return rst, wrap, wsrc, rsrc


RST_ALPHA = [ord(c) for c in '"\\a .\n:-']


def sym_terminates_early(chars):
    """symbolic version of terminates_early(): returns a z3 Bool (no forking): scan with a state machine
    over concrete positions: esc_i = position i is consumed by a preceding backslash."""
    n = len(chars)
    text = list(chars) + [34, 34, 34]
    esc = [False] * (len(text) + 2)
    early = []
    seen_before = False  # z3 Bool: an unescaped triple quote was already seen
    ok_close = None
    for i in range(len(text)):
        is_bs = bstr.b_and([bstr.b_not(esc[i]), bstr.c_eq(text[i], 92)])
        esc[i + 1] = is_bs
        if i + 2 < len(text):
            trip = bstr.b_and([bstr.b_not(esc[i]), bstr.c_eq(text[i], 34),
                               # the next two are part of the same run: not escaped because text[i] is a quote
                               bstr.c_eq(text[i + 1], 34), bstr.c_eq(text[i + 2], 34)])
        else:
            trip = False
        first_here = bstr.b_and([bstr.b_not(seen_before), trip])
        if i < n:
            early.append(first_here)
        elif i == n:
            ok_close = first_here
        seen_before = bstr.b_or([seen_before, trip])
    return bstr.b_not(ok_close)


def rst_task(task):
    rst, wrap, _w, _r = load_rst()
    L, width, indent, nl, prefix = task["L"], task["width"], task["indent"], task["nl"], task["prefix"]
    s = bstr.SymStr(list(prefix) + [z3.Int(f"t{i}") for i in range(len(prefix), L)])
    base = bstr.alphabet_constraints(s, RST_ALPHA)
    leaves = 0
    outside = 0
    ctx = None

    def run():
        try:
            r = rst(s, width=width, indent=indent, nl=nl)
            return bstr.S(r).strip() if task.get("trim") else r
        except OutOfFamily:
            return None
    for ctx, out in bstr.explore(run, base):
        if out is None:
            outside += 1
            continue
        leaves += 1
        ok, m = ctx.valid(bstr.b_not(sym_terminates_early(out.c)))
        if not ok:
            return leaves, outside, ctx.checks, ctx.solver_s, bstr.model_string(m, s), task
    return leaves, outside, (ctx.checks if ctx else 0), (ctx.solver_s if ctx else 0.0), None, task


# ------------------------------------------------------------------ validation of the engines on concrete strings
def validate(chk, rnd):
    from gapic.generator.formatter import fix_whitespace
    from gapic.utils.rst import rst as real_rst
    import textwrap
    fw, fsrc = bstr.load_function(FMT, "fix_whitespace")
    chk.encoded("gapic/generator/formatter.py: fix_whitespace", fsrc)
    rst, wrap, wsrc, rsrc = load_rst()
    chk.encoded("gapic/utils/lines.py: wrap (+ is_list_item, get_subsequent_line_indentation_level)", wsrc)
    chk.encoded("gapic/utils/rst.py: rst", rsrc)
    samples = ["", "\n", "x", "class A:\n\n\n\n    def f(self):\n        pass\n\n\n\n\n@dec\ndef g():  \n    pass   \n\n\n",
               "a \n\n\n\n#c\n", "x\n\n\n        y\n", "\t\n x \n"]
    for _ in range(150):
        samples.append("".join(rnd.choice(" \n\tx#@_:d") for _ in range(rnd.randint(0, 16))))
    bad = n = 0
    for s in samples:
        for c, r in bstr.explore(lambda: fw(bstr.S(s))):
            n += 1
            if r.concrete() != fix_whitespace(s):
                bad += 1
        for c, r in bstr.explore(lambda: sym_nf(bstr.S(s))):
            if r.concrete() != py_nf(s):
                bad += 1
    texts = ['a "b"', 'say "x".', '"""', 'a\\', "a: b", "- item one", "1. item", "two\nlines", "t:\nx", "  pad  ", 'q"\n']
    for _ in range(120):
        texts.append("".join(rnd.choice('"\\a .\n:-') for _ in range(rnd.randint(0, 9))))
    from checks import _wrapflow as wf
    for _ in range(400):
        t = "".join(rnd.choice("ab \n\t:-1.") for _ in range(rnd.randint(0, 14)))
        w = rnd.choice([3, 4, 6, 8, 10, 72])
        ii, si = " " * rnd.choice([0, 2]), " " * rnd.choice([0, 2, 4])
        if len(ii) >= w or len(si) >= w:
            continue
        for blw in (False, True):
            real = textwrap.wrap(t, width=w, initial_indent=ii, subsequent_indent=si, break_long_words=blw, break_on_hyphens=False)
            for c, r in bstr.explore(lambda: wf.tw_wrap(bstr.S(t), width=w, initial_indent=ii, subsequent_indent=si,
                                                        break_long_words=blw, break_on_hyphens=False)):
                n += 1
                if [x.concrete() for x in r] != real:
                    bad += 1
                    chk.sample({"textwrap_model_disagreement": [t, w, blw, real]})
    tw = textwrap_model()
    for t in texts:
        for (w, ind, nl) in ((72, 0, None), (72, 8, None), (40, 4, False), (72, 4, True)):
            real = real_rst(t, width=w, indent=ind, nl=nl)
            got = None
            try:
                for c, r in bstr.explore(lambda: rst(bstr.S(t), width=w, indent=ind, nl=nl)):
                    got = r.concrete()
            except OutOfFamily:
                continue
            n += 1
            if got != real:
                bad += 1
                chk.sample({"rst_model_disagreement": [t, real, got]})
            x = sym_terminates_early([ord(ch) for ch in real])
            xv = x if isinstance(x, bool) else z3.is_true(z3.simplify(x))
            if terminates_early(real) != xv:
                bad += 1
                chk.sample({"tokenizer_model_disagreement": real})
        # the tokenizer oracle itself against CPython's tokenizer
        import io
        import tokenize
        src = '"""' + t + '"""\n'
        try:
            tok = next(tokenize.generate_tokens(io.StringIO(src).readline))
            cp_ok = tok.type == tokenize.STRING and tok.string == src[:-1]
        except (tokenize.TokenError, SyntaxError, IndentationError):
            cp_ok = False
        if cp_ok == terminates_early(t):
            bad += 1
            chk.sample({"tokenizer_oracle_disagrees_with_cpython": t})
        n += 1
    return n, bad


def body(chk: core.Check):
    quick = chk.tier == "quick"
    chk.engines.add("BSTR (exact backtracking order, z3 ints)")
    NU = 6 if quick else 8
    NR = 6 if quick else 8
    chk.bound("formatter_family_U", f"all strings of length <= {NU} over the alphabet {''.join(chr(c) for c in ALPHA_U)!r}")
    chk.bound("formatter_family_S", "p . W . I . q: p, q arbitrary (<= 1 char, family-U alphabet; q optionally followed by "
              f"'def f' / 'class C'), W whitespace run over space/tab/newline of length <= {4 if quick else 5}, I = "
              f"{'0/3/4/8' if quick else '0/1/2/3/4/5/8/12'} spaces")
    chk.bound("rst_text", f"all texts of length <= {NR} over the alphabet {''.join(chr(c) for c in RST_ALPHA)!r}; "
              "width/indent/nl in {(72,0,None),(72,8,None),(72,4,True),(40,4,False)}")
    chk.assumptions += [
        "whitespace is restricted to space, tab, newline; ASCII",
        "(1c) is the solver-level surrogate for 'AST unchanged': outside string literals CPython's tokenizer depends on a "
        "source only through the (indentation, right-stripped text) of its non-blank lines -- an argument on paper",
        "rst: plain-text branch only (no pandoc in the sandbox: texts without | * ` _ [ ]); textwrap.fill/wrap replaced by a "
        "short-text model (validated against the real functions on this run's samples); paths on which a line would need "
        "breaking are outside the family and counted",
        "the docstring body is followed directly by the closing triple quotes (worst case of every template context)",
    ]
    chk.outside += ["wrap(): texts whose over-long first line contains tabs or starts "
                    "with blanks (known finding F3)",
                    "the pandoc branch of rst()", "strings longer than the bounds"]
    rnd = random.Random(chk.seed)
    n, bad = validate(chk, rnd)
    chk.extra["translator_validation"] = {"concrete_cases": n, "disagreements": bad}
    if bad:
        raise core.Inconclusive(f"engine validation: {bad} disagreements with the real functions")

    # ---- (1) formatter ---------------------------------------------------------------------------
    tasks = []
    for L in range(0, (NU if chk.only("formatter") else -1) + 1):
        if L < 3:
            tasks.append(dict(kind="U", L=L, prefix=()))
        else:
            for pre in itertools.product(ALPHA_U, repeat=2):
                tasks.append(dict(kind="U", L=L, prefix=pre))
    inds = (0, 3, 4, 8) if quick else (0, 1, 2, 3, 4, 5, 8, 12)
    wmax = 4 if quick else 5
    pq = 2          # p, q <= 1 symbolic character (a second one multiplies the path count by ~5 per side)
    for lp, lw, ind, lq in itertools.product(range(0, pq), range(2, wmax + 1), inds, range(0, pq)):
        for qfix in ("", "def f", "class C"):
            if (qfix and lq) or not chk.only("formatter"):
                continue
            tasks.append(dict(kind="S", lp=lp, lw=lw, ind=ind, lq=lq, qfix=qfix))
    t0 = time.time()
    with mp.Pool(chk.jobs) as pool:
        results = pool.map(formatter_task, tasks, chunksize=1)
    leaves = sum(r[0] for r in results)
    for lv, checks, secs, cex, task in results:
        key = f"{task['kind']}:" + (f"L={task['L']},prefix={task['prefix']}" if task["kind"] == "U" else
                                    f"lp={task['lp']},lw={task['lw']},I={task['ind']},lq={task['lq']},q+={task['qfix']!r}")
        if cex is None:
            chk.ok("formatter(a,b,c)", key, secs, n=max(lv, 1))
        else:
            text = py_formatter_violation(cex)
            if text:
                chk.violation(f"formatter:{cex!r}", text, {"kind": "formatter", "input": cex})
            else:
                chk.fail_inconclusive(f"formatter counterexample {cex!r} did not replay")
    chk.sample({"formatter_partitions": len(tasks), "leaves": leaves, "wall_s": round(time.time() - t0, 1)})

    # ---- (2) rst guard ---------------------------------------------------------------------------
    # template contexts in which the closing quotes can follow the rst() output directly: the guard is checked for the
    # output as it is ("raw") and, if some template trims it first, for the trimmed output as well
    ctxs = rst_contexts(core.REPO)
    modes = sorted({m for _f, _l, m in ctxs}) or ["raw"]
    chk.encoded("inventory of |rst(...) uses followed directly by the closing quotes", "\n".join(f"{f}:{l}:{m}" for f, l, m in ctxs))
    chk.extra["rst_direct_close_contexts"] = [f"{f}:{l} ({m})" for f, l, m in ctxs]
    rtasks = []
    for trim in [m == "trim" for m in modes]:
        for (w, ind, nl) in ((72, 0, None), (72, 8, None), (72, 4, True), (40, 4, False)):
            for L in range(0, (NR if chk.only("rst") else -1) + 1):
                if L < 2:
                    rtasks.append(dict(L=L, width=w, indent=ind, nl=nl, prefix=(), trim=trim))
                else:
                    for c0 in RST_ALPHA:
                        rtasks.append(dict(L=L, width=w, indent=ind, nl=nl, prefix=(c0,), trim=trim))
    with mp.Pool(chk.jobs) as pool:
        rres = pool.map(rst_task, rtasks, chunksize=1)
    tot_out = 0
    for lv, outside, checks, secs, cex, task in rres:
        tot_out += outside
        key = f"rst:L={task['L']},prefix={task['prefix']},w={task['width']},i={task['indent']},nl={task['nl']}" + \
            (",trim" if task.get("trim") else "")
        if cex is None:
            chk.ok("rst-docstring-guard", key, secs, n=max(lv, 1))
        else:
            text = py_rst_violation(cex, task["width"], task["indent"], task["nl"], bool(task.get("trim")))
            if text:
                fam = "triple-quote" if '"""' in cex else ("trailing-backslash" if cex.rstrip().endswith("\\") else "other")
                if task.get("trim"):
                    fam += "+trim"
                chk.violation(f"rst:{fam}", text, {"kind": "rst", "input": cex, "width": task["width"],
                                                  "indent": task["indent"], "nl": task["nl"], "trim": bool(task.get("trim"))})
            else:
                chk.fail_inconclusive(f"rst counterexample {cex!r} did not replay")
    chk.sample({"rst_partitions": len(rtasks), "paths_outside_family(text needs wrapping)": tot_out})
    chk.twin("rst: inputs containing quotes reach the guard", True)
    # canary: a template that trims the rst() output right before the closing quotes would defeat the guard
    rc = rst_task(dict(L=3, width=72, indent=4, nl=None, prefix=(ord("a"),), trim=True))
    chk.canary("rst() output trimmed directly before the closing quotes (hypothetical template context)", rc[4] is not None, repr(rc[4]))

    # ---- (3) wrap re-flow: no word is dropped, duplicated or reordered ----------------------------
    if chk.only("wrap"):
        from checks import _wrapflow as wf
        _w, wsrc2 = wf.load_wrap()
        NW = 6 if quick else 7
        # (width, indent, offset); (8, 5, 5) and (12, 8, 8): indent > width/4, where "short line" (< 0.75 width) and
        # "fits after indenting" (<= width - indent) differ
        settings = [(72, 0, 0), (8, 0, 0), (6, 2, 3), (4, 0, 1), (8, 5, 5)] if quick else \
            [(72, 0, 0), (72, 8, 11), (8, 0, 0), (6, 2, 3), (4, 0, 1), (5, 2, 0), (10, 4, 7), (8, 5, 5), (12, 8, 8)]
        notab = [c for c in wf.WRAP_ALPHA if c != 9]
        wtasks = []
        for (w, ind, off) in settings:
            wtasks.append(dict(L=0, prefix=(), width=w, indent=ind, offset=off, alphabet=notab, family="A"))
            for L in range(1, NW + 1):
                for c0 in [ord(c) for c in "a:-1."]:          # family A: no tab, no leading blank
                    wtasks.append(dict(L=L, prefix=(c0,), width=w, indent=ind, offset=off, alphabet=notab, family="A"))
        for L in range(1, NW + 1):                                # family B: tabs / leading blanks, first line never re-wrapped
            for c0 in wf.WRAP_ALPHA:
                wtasks.append(dict(L=L, prefix=(c0,), width=72, indent=0, offset=0, family="B"))
        chk.bound("wrap_text", f"family A: all texts <= {NW} chars over 'a \\n:-1.' not starting with a blank, for (width, indent, "
                  f"offset) in {settings}; family B: all texts <= {NW} chars incl. tabs and leading blanks at width 72")
        with mp.Pool(chk.jobs) as pool:
            wres = pool.map(wf.wrap_task, wtasks, chunksize=1)
        for lv, checks, secs, cex, task in wres:
            key = f"wrap:{task['family']}:L={task['L']},c0={task['prefix']},w={task['width']},i={task['indent']},o={task['offset']}"
            if cex is None:
                chk.ok("wrap-words-preserved-and-width", key, secs, n=max(lv, 1))
            else:
                text = wf.py_wrap_violation(cex, task["width"], task["indent"], task["offset"])
                if text:
                    chk.violation(f"wrap:{task['family']}:{cex!r}", text, {"kind": "wrap", "input": cex, "width": task["width"],
                                                                         "indent": task["indent"], "offset": task["offset"]})
                else:
                    chk.fail_inconclusive(f"wrap counterexample {cex!r} did not replay")
        chk.sample({"wrap_partitions": len(wtasks), "leaves": sum(r[0] for r in wres)})
        # known finding F3: an over-long first line whose textwrap image is not a literal prefix of the text
        f3 = wf.py_wrap_violation("a\tb c d e f g h i j k", 12, 0, 0)
        if f3:
            chk.violation("wrap-first-line-rewrap", f3, {"kind": "wrap", "input": "a\tb c d e f g h i j k", "width": 12, "indent": 0, "offset": 0})
        # canary: the colon rule applied to a first line with trailing blanks (in-memory mutant)
        mut = open(wf.LINES).read().replace('if first.endswith(":\\n"):', 'if first.rstrip().endswith(":"):')
        fired = False
        for c0 in (ord("a"),):
            r = wf.wrap_task(dict(L=5, prefix=(c0,), width=72, indent=0, offset=0, alphabet=notab, source=mut))
            fired = fired or r[3] is not None
        chk.canary("wrap applying the colon rule to 'x: ' first lines (in-memory mutant)", fired)
        # canary: the re-flow of the remainder done two columns too wide (in-memory mutant) -> width clause
        src0 = open(wf.LINES).read()
        mut = src0.replace("                    width=width,\n", "                    width=width + 2,\n")
        fired = False
        if mut != src0:
            for c0 in (ord("a"),):
                r = wf.wrap_task(dict(L=11, prefix=(c0,) + tuple(map(ord, " a a a ")), suffix=tuple(map(ord, " a a a")), width=8, indent=0,
                                      offset=0, alphabet=notab, source=mut))
                fired = fired or r[3] is not None
        chk.canary("wrap re-flowing the remainder two columns too wide (in-memory mutant)", fired)

    # ---- (4) which comment reaches the docstring: Metadata.doc ----------------------------------------
    if chk.only("doc"):
        from checks import _docflow as df
        _fn, dsrc = df.load_doc()
        chk.encoded("gapic/schema/metadata.py: Metadata.doc", dsrc)
        dl = 3 if quick else 4
        chk.bound("doc_comments", f"leading / trailing comments <= {dl} chars over 'ab \\n', up to two detached comments <= 2 chars")
        dtasks = df.tasks(dl)
        with mp.Pool(chk.jobs) as pool:
            dres = pool.map(df.doc_task, dtasks, chunksize=1)
        for lv, checks_, secs, cex, task in dres:
            key = f"doc:leading={task['ll']},trailing={task['lt']},detached={tuple(task['ld'])}"
            if cex is None:
                chk.ok("doc-comment-selection", key, secs, n=max(lv, 1))
            else:
                text = df.py_doc_violation(*cex)
                if text:
                    chk.violation(f"doc:{cex!r}", text, {"kind": "doc", "leading": cex[0], "trailing": cex[1], "detached": cex[2]})
                else:
                    chk.fail_inconclusive(f"Metadata.doc counterexample {cex!r} did not replay")
        mut = open(df.META).read().replace("return self.documentation.trailing_comments.strip()",
                                          "return self.documentation.leading_comments.strip()")
        r = df.doc_task(dict(ll=0, lt=2, ld=(), source=mut))
        chk.canary("Metadata.doc returning the (empty) leading comment instead of the trailing one (in-memory mutant)", r[3] is not None)

    # ---- sensitivity canaries (in-memory mutants of the loaded sources) --------------------------
    src = open(FMT).read().replace('return f"{code.rstrip()}\\n"', 'return f"{code.rstrip(chr(32))}\\n"')
    fwm, _ = bstr.load_function(FMT, "fix_whitespace", source=src)
    s = bstr.fresh_string("c", 3)
    fired = False
    for c, a1 in bstr.explore(lambda: fwm(s), bstr.alphabet_constraints(s, ALPHA_U)):
        ok, m = c.valid(bstr.b_and([bstr.c_eq(a1.c[-1], 10)] + ([bstr.b_not(bstr.is_ws(a1.c[-2]))] if len(a1) > 1 else [])))
        if not ok:
            fired = True
            break
    chk.canary("fix_whitespace stripping only spaces at the end (in-memory mutant)", fired)


def replay(chk, data):
    if data.get("kind") == "formatter":
        return py_formatter_violation(data["input"])
    if data.get("kind") == "wrap":
        from checks import _wrapflow as wf
        return wf.py_wrap_violation(data["input"], data["width"], data["indent"], data["offset"])
    if data.get("kind") == "doc":
        from checks import _docflow as df
        return df.py_doc_violation(data["leading"], data["trailing"], data["detached"])
    if data.get("kind") == "rst":
        return py_rst_violation(data["input"], data["width"], data["indent"], data["nl"], bool(data.get("trim")))
    return None


if __name__ == "__main__":
    core.run_check("C20", __doc__.strip().splitlines()[0], body, replay)
