"""C07 -- paginated methods yield every item of every page exactly once, in order.

Solver-decided with CrossHair (z3) on regex-free real code:
  (1) classification: the real Method.paged_result_field on descriptor stand-ins, for ALL proto
      types / labels / presence patterns, against the AIP-4233 sentence of the property;
  (2) pager loop: the EMITTED pagers.py (current templates) loaded unmodified, for ALL server
      page histories within the bound: items, token threading, untouched request/options,
      stop at first empty token, most-recent-page attributes, sync and async, map items;
  (3) wiring: client method hands rpc/request/response/options to the pager (C03/C05 harness).
"""
from __future__ import annotations

import ast
import os

from lib import apis, ch, core, gen

HERE = os.path.dirname(os.path.abspath(__file__))
H_PAGER = os.path.join(core.VERIF, "harness", "h07_pager.py")
H_CLASS = os.path.join(core.VERIF, "harness", "h07_classify.py")


def mutate_pager(src_path, dst_dir):
    """in-memory style canary: copy of the emitted pagers with token threading removed."""
    text = open(src_path).read()
    mut = text.replace("self._request.page_token = self._response.next_page_token", "pass", 1)
    if mut == text:
        raise core.Inconclusive("canary: token threading statement not found in emitted pager")
    dst = os.path.join(dst_dir, "google/example/pg_v1/services/library/pagers.py")
    os.makedirs(os.path.dirname(dst), exist_ok=True)
    open(dst, "w").write(mut)


def body(chk: core.Check):
    quick = chk.tier == "quick"
    chk.engines.add("CH (CrossHair 0.0.110 + z3)")
    np_, ni = (3, 2) if quick else (5, 2)
    t_pager = 120 if quick else 2400
    t_class = 300 if quick else 1200
    chk.bound("pages", np_)
    chk.bound("items_per_page", ni)
    chk.bound("token_length", 2)
    chk.bound("crosshair_per_condition_timeout_s", {"pager": t_pager, "classify": t_class})
    chk.assumptions += [
        "classification: shapes on which the property's sentence is silent are excluded by precondition: "
        "both page_size and max_results present; repeated token/size fields; wrapper-typed page_size",
        "message stand-ins (lib/fakes.FakeMsg) follow the proto-plus contract: copy-construct, attribute "
        "get/set, falsy default of unset scalars",
    ]
    chk.stubs += ["lib/fakes.FakeMsg for request/response classes", "server = recording callable returning the history's pages"]
    chk.outside += ["histories longer than the bound", "transport behaviour below the wrapped method",
                    "item types from other files (rendering concern)"]

    g = gen.generate(apis.paging_api(), parameter="transport=grpc+rest")
    chk.programs += 1
    pagers_path = g.path("services/library/pagers.py")
    src = open(pagers_path).read()
    chk.encoded("emitted pagers.py (templates: pagers.py.j2)", src)
    tree = ast.parse(src)
    classes = sorted(n.name for n in tree.body if isinstance(n, ast.ClassDef))
    expect = sorted(f"{m}{k}" for m in ("ListBooks", "ListNames", "ListEntries", "ListTwo") for k in ("Pager", "AsyncPager"))
    if classes != expect:
        chk.violation("pager-classes", f"emitted pager classes {classes} != expected {expect} "
                      "(NotPaged must not be paged; the four List* methods must)", {"classes": classes})
    wr = open(f"{core.REPO}/gapic/schema/wrappers.py").read()
    i = wr.index("def _validate_paged_field_size_type")
    chk.encoded("gapic/schema/wrappers.py: Method.paged_result_field/_validate_paged_field_size_type", wr[i:i + 2600])

    env = {"VERIF_EMITTED": g.outdir, "VERIF_NP": str(np_), "VERIF_NI": str(ni)}
    hmod = ch.load_module(H_PAGER, env)
    funcs = list(hmod.ALL)
    jobs = []
    res_pager = ch.run(H_PAGER, funcs + ["twin_reach"], timeout=t_pager, env=env, jobs=chk.jobs)
    twin = [r for r in res_pager if r["func"] == "twin_reach"][0]
    chk.twin("pager: multi-page history with items reaches the final assertion", twin["status"] == "refuted")
    ch.settle(chk, H_PAGER, [r for r in res_pager if r["func"] != "twin_reach"], "pager")
    for r in res_pager[:3]:
        chk.sample({"harness": "h07_pager." + r["func"], "status": r["status"], "seconds": r["seconds"]})

    # classification, 48 presence partitions
    parts = [{"VERIF_PART": str(i)} for i in range(64) if not ((i >> 1) & 1 and (i >> 2) & 1)]
    chk.bound("proto_types", "all 15 scalar type numbers (1..18 without 10, 11, 14) plus message-typed max_results; "
              "labels 1..3; wrapper kinds {Int32Value, UInt32Value, other}")
    res_c = ch.run(H_CLASS, ["classify"], timeout=t_class, env={}, jobs=chk.jobs, partitions=parts)
    ch.settle(chk, H_CLASS, res_c, "classify")
    tw = ch.run(H_CLASS, ["twin"], timeout=120, env={}, jobs=1)[0]
    chk.twin("classify: paged shape with two repeated fields and a UInt32Value max_results is reachable",
             tw["status"] == "refuted")
    rc = ch.run(H_CLASS, ["classify"], timeout=t_class, env={"VERIF_CANARY": "any-wrapper", "VERIF_PART": "61"}, jobs=1)[0]
    chk.canary("paged_result_field accepting any wrapper message as max_results (in-memory mutant)",
               rc["status"] == "refuted", rc.get("call", ""))
    for r in res_c[:2]:
        chk.sample({"harness": "h07_classify.classify", "partition": r["env"], "status": r["status"], "seconds": r["seconds"]})

    # (3) wiring: the emitted sync/async client methods hand rpc, coerced request, first response and the caller's
    # retry / timeout / metadata to the pager (shared client harness)
    from checks import _client
    gc = _client.render(chk)
    _client.run_funcs(chk, gc, ["wire_list_books"], "pager-wiring", t_pager, partitions=_client.KIND_PARTS)

    # sensitivity canary: pager without token threading must be refuted
    mdir = gen.scratch_dir()
    mutate_pager(pagers_path, mdir)
    env2 = dict(env, VERIF_EMITTED=mdir)
    r = ch.run(H_PAGER, ["sync_books"], timeout=60, env=env2, jobs=1)[0]
    chk.canary("emitted pager with token threading removed (in-memory copy)", r["status"] == "refuted", r.get("call", ""))


def replay(chk, data):
    if str(data.get("harness", "")).endswith("h_client.py"):
        from checks import _client
        return _client.replay(chk, data)
    g = gen.generate(apis.paging_api(), parameter="transport=grpc+rest")
    env = dict(data.get("env") or {})
    env["VERIF_EMITTED"] = g.outdir
    rep, detail = ch.replay_call(os.path.join(core.VERIF, data["harness"]), data["call"], env)
    return f"{data['call']} -> {detail}" if rep else None


if __name__ == "__main__":
    core.run_check("C07", __doc__.strip().splitlines()[0], body, replay)
