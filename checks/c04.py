"""C04 -- REST calls transcode each request exactly as its google.api.http rule prescribes (generator-side half).

path_template.transcode, json_format and requests do the transcoding at run time and are not this repository's
code; the generator contributes their INPUTS.  Decided here:
 (1) rule table: BSTR on convert_uri_fieldnames / HttpRule body / Method.path_params for ALL identifiers within
     the bound; per program the emitted _get_http_options() literal equals the rule's bindings in order
     (concrete diff);
 (2) required defaults: CrossHair/z3 on the emitted _get_query_params_json / _get_unset_required_fields for ALL
     presence patterns of the query keys: every required scalar non-path non-body field is present afterwards (the
     caller's value if it was there, the typed default otherwise), nothing else is added, `$alt` and
     use_integers_for_enums follow the numeric-enums option;
 (3) Method.query_params / path_params on a real HttpRule for ALL (verb, path-variable subset, body kind).
 (4) CrossHair/z3 on the emitted _get_response of every REST stub (lifted unmodified): for ALL verbs the session is called
     once with the transcoded verb and URL, strictly flattened query parameters, the caller's metadata as headers and --
     whenever the rule declares a body -- the payload, whatever the verb.
 (5) CrossHair/z3 on the emitted __call__ of every REST stub (harness/h04_call.py): for ALL (stub, status class, timeout,
     metadata) the method's OWN http options are transcoded with the pre-intercepted request, body (iff declared) and
     query come from that transcoded request, its own _get_response is called once, status >= 400 raises, otherwise the
     reply is parsed into the declared output type (None for Empty, ResponseIterator for server streaming).
"""
from __future__ import annotations

import ast
import itertools
import os
import time
from types import SimpleNamespace as NS

from checks import _renamers
from lib import apis, bstr, ch, core, gen

H = os.path.join(core.VERIF, "harness", "h04_rest.py")
HC = os.path.join(core.VERIF, "harness", "h04_call.py")
W = os.path.join(core.REPO, "gapic/schema/wrappers.py")


def http_table(src):
    """emitted rest_base.py -> {ClassName: [ {method, uri, body?}, ... ]}"""
    tree = ast.parse(src)
    outer = [n for n in tree.body if isinstance(n, ast.ClassDef) and n.name.startswith("_Base")][0]
    out = {}
    for c in outer.body:
        if not isinstance(c, ast.ClassDef):
            continue
        for fn in c.body:
            if isinstance(fn, ast.FunctionDef) and fn.name == "_get_http_options":
                for st in fn.body:
                    if isinstance(st, ast.AnnAssign):
                        out[c.name] = ast.literal_eval(st.value)
    return out


def expected_table(fdp):
    from google.api import annotations_pb2
    from gapic.utils.reserved_names import RESERVED_NAMES
    exp = {}
    for m in fdp.service[0].method:
        rule = m.options.Extensions[annotations_pb2.http]
        rules = [rule] + list(rule.additional_bindings)
        rows = []
        for r in rules:
            verb = r.WhichOneof("pattern")
            if verb is None or verb == "custom":
                continue
            row = {"method": verb, "uri": _renamers.py_convert_uri(getattr(r, verb), RESERVED_NAMES)}
            if r.body:
                row["body"] = r.body + "_" if r.body in RESERVED_NAMES else r.body
            rows.append(row)
        if rows:
            exp["_Base" + m.name] = rows
    return exp


def check_path_params(chk, quick):
    fn, src = bstr.load_function(W, "Method.path_params")
    chk.encoded("gapic/schema/wrappers.py: Method.path_params", src)
    shapes = [("/v1/{%s}", 1), ("/v1/{%s=a/*}", 1), ("/v1/{%s=a/*/b/**}:verb", 1), ("/v1/{%s=a/*/b/*}/cs/{%s}", 2),
              ("/v1/{%s}/cs/{%s=c/*}:x", 2), ("/v1/{%s=a/*}/{%s=b/*}/{%s}", 3), ("/v1/things", 0)]
    maxlen = 3 if quick else 5
    alphabet = [ord(c) for c in "abcxyz_019"]
    for shape, nvar in shapes:
        t0 = time.time()
        cex = None
        leaves = 0
        for lens in itertools.product(range(1, maxlen + 1), repeat=nvar):
            vs = [bstr.fresh_string(f"v{i}", l) for i, l in enumerate(lens)]
            base = []
            for v in vs:
                base += bstr.alphabet_constraints(v, alphabet)
            uri = _renamers.fill(shape, vs)
            for c, out in bstr.explore(lambda: fn(NS(http_opt={"verb": "get", "url": uri})), base):
                leaves += 1
                out = list(out)
                phi = (len(out) == nvar) and bstr.b_and([bstr.eq_chars(o.c, v.c) for o, v in zip(out, vs)])
                ok, m = c.valid(phi)
                if not ok:
                    cex = shape % tuple(bstr.model_string(m, v) for v in vs)
                    break
            if cex:
                break
        if cex is None:
            chk.ok("path_params", shape, time.time() - t0)
        else:
            text = path_params_violation(cex)
            if text:
                chk.violation(f"path_params:{shape}", text, {"kind": "path_params", "uri": cex})
            else:
                chk.fail_inconclusive(f"path_params counterexample {cex!r} did not replay")
    chk.sample({"target": "Method.path_params", "shapes": [s for s, _ in shapes], "variable_len": maxlen})


def path_params_violation(uri):
    from gapic.schema import wrappers
    from google.api import annotations_pb2, http_pb2
    rule = http_pb2.HttpRule(get=uri)
    m = wrappers.Method(method_pb=NS(name="M", options=NS(Extensions={annotations_pb2.http: rule})), input=None, output=None)
    got = list(m.path_params)
    exp = [v.split("=")[0] for v in _renamers.py_uri_variables(uri)]
    return None if got == exp else f"path_params({uri!r}) = {got}, URI variables are {exp}"


def enum_default_finding(chk, g):
    """required enum fields: does the emitted default ever reach the query string?"""
    from google.api_core import rest_helpers
    hm = ch.load_module(H, {"VERIF_EMITTED": g.outdir})
    d = hm.BASE._BaseGetThing._get_unset_required_fields({})
    if "rEnum" not in d:
        chk.violation("required-enum-default", "required enum field r_enum has no default entry at all", {"kind": "enum"})
        return
    flat = rest_helpers.flatten_query_params({"rEnum": d["rEnum"]}, strict=True)
    if not flat:
        chk.violation("required-enum-default",
                      f"required enum field r_enum (GetThing): emitted default {d['rEnum']!r} flattens to no query "
                      "parameter, so a default-valued required enum never travels", {"kind": "enum"})
    else:
        chk.ok("required-enum-default (concrete)", "GetThing.r_enum")


def body(chk: core.Check):
    quick = chk.tier == "quick"
    chk.engines |= {"BSTR", "CH (CrossHair 0.0.110 + z3), selector-symbolic, realised-untraced"}
    chk.bound("uri_variable_length", "<= 3/5 chars (path_params), segments <= 4/6 (convert_uri_fieldnames), body <= 22")
    chk.bound("query_keys", "9 required scalar keys + 1 optional key of GetRequest, all presence patterns; 5 further methods")
    chk.stubs += ["json_format.MessageToJson / json.loads replaced by pass-through recorders (protobuf / stdlib code)",
                  gen.PANDOC_STUB_NOTE]
    chk.outside += ["URL expansion, query flattening, JSON encoding, reply parsing (api_core / protobuf / requests)",
                    "dotted path variables in Method.path_params (upstream TODO: 'basic case only')",
                    "defaults of required message-typed and repeated fields (the property speaks of scalar fields)"]
    # (1) BSTR
    if chk.only("bstr"):
        core.parallel_parts(chk, [(_renamers.check_convert_uri, quick), (_renamers.check_http_body, quick),
                                  (check_path_params, quick)])
    # per program: option table + (2)
    for numeric in (False, True):
        param = "transport=grpc+rest" + (",rest-numeric-enums" if numeric else "")
        g = gen.generate(apis.rest_api(), parameter=param)
        chk.programs += 1
        src = g.text("services/library/transports/rest_base.py")
        chk.encoded(f"emitted rest_base.py (numeric={numeric})", src)
        got, exp = http_table(src), expected_table(apis.rest_api()[0].f)
        for k in sorted(set(got) | set(exp)):
            if got.get(k) == exp.get(k):
                chk.ok("http-options-table (concrete diff)", f"{k}:numeric={numeric}")
            else:
                chk.violation(f"http-options:{k}", f"emitted {got.get(k)} != rule bindings {exp.get(k)}",
                              {"kind": "table", "cls": k, "numeric": numeric})
        # methods without a binding refuse REST
        rest = g.text("services/library/transports/rest.py")
        i = rest.index("class _NoHttp(")
        seg = rest[i:rest.index("class _", i + 10)]
        if "raise NotImplementedError" in seg:
            chk.ok("no-binding-refuses-rest (concrete)", f"numeric={numeric}")
        else:
            chk.violation("no-binding", "method without http rule does not raise NotImplementedError over REST", {"kind": "nohttp"})
        if chk.only("ch"):
            env = {"VERIF_EMITTED": g.outdir, "VERIF_NUMERIC": "1" if numeric else "0"}
            res = ch.run(H, ["required_get", "required_others", "send"], timeout=300, env=env, jobs=chk.jobs)
            ch.settle(chk, H, res, "required-defaults", key_prefix=f"numeric={numeric}:")
            for r in res:
                chk.sample({"harness": "h04_rest." + r["func"], "numeric": numeric, "status": r["status"], "seconds": r["seconds"]})
            if not numeric:
                enum_default_finding(chk, g)
                tw = ch.run(H, ["twin"], timeout=120, env=env, jobs=1)[0]
                chk.twin("required_get: a dict holding one required and one optional key reaches the comparison", tw["status"] == "refuted")
                c3 = ch.run(H, ["send"], timeout=300, env=dict(env, VERIF_CANARY="drop-delete-body"), jobs=1)[0]
                chk.canary("payload dropped for DELETE/GET bindings that declare a body (in-memory mutant)",
                           c3["status"] == "refuted", c3.get("call", c3["status"]))
                # (5) the emitted __call__ of every REST stub: wiring of options -> transcoding -> body/query -> send -> reply
                hc = ch.load_module(HC, env)
                for cls_, src_ in sorted(hc.SOURCES.items()):
                    chk.encoded(f"emitted rest.py: LibraryRestTransport.{cls_}.__call__", src_)
                chk.bound("rest_call_wiring", f"{hc.N} REST stubs (body / no body / Empty / server streaming) x status in {hc.STATUS} x "
                          "timeout given or not x caller metadata given or not")
                res5 = ch.run(HC, ["call_wiring"], timeout=300, env=env, jobs=chk.jobs)
                ch.settle(chk, HC, res5, "rest-call-wiring")
                for r in res5:
                    chk.sample({"harness": "h04_call." + r["func"], "status": r["status"], "seconds": r["seconds"]})
                tw5 = ch.run(HC, ["twin"], timeout=120, env=env, jobs=1)[0]
                chk.twin("call_wiring: the last stub with status 400 and a timeout reaches the comparison", tw5["status"] == "refuted")
                import concurrent.futures as cf
                cans = [("ignore-errors", "first stub treating only status >= 500 as an error (in-memory mutant)"),
                        ("wrong-options", "PutThing using GetThing's http options (in-memory mutant)")]
                with cf.ThreadPoolExecutor(max_workers=2) as ex:
                    futs = [(c, ex.submit(ch.run, HC, ["call_wiring"], 300, dict(env, VERIF_CANARY=c[0]), 1)) for c in cans]
                    for c, f in futs:
                        r = f.result()[0]
                        chk.canary(c[1], r["status"] == "refuted", r.get("call", r["status"]))
                cn = ch.run(H, ["required_get"], timeout=300, env=dict(env, VERIF_CANARY="inject-present"), jobs=1)[0]
                chk.canary("defaults injected even when the key is present (in-memory mutant)", cn["status"] == "refuted",
                           cn.get("call", cn["status"]))
    # (3)
    if chk.only("ch"):
        res = ch.run(H, ["query_params"], timeout=300, env={}, jobs=chk.jobs)
        ch.settle(chk, H, res, "query_params")
        wsrc = open(W).read()
        i = wsrc.index("def query_params")
        chk.encoded("gapic/schema/wrappers.py: Method.query_params/http_opt", wsrc[i:i + 900])


def replay(chk, data):
    k = data.get("kind")
    if k == "renamer":
        return _renamers.replay(data)
    if k == "path_params":
        return path_params_violation(data["uri"])
    if k in ("table", "nohttp", "enum"):
        return data["text"]
    g = gen.generate(apis.rest_api(), parameter="transport=grpc+rest" + (",rest-numeric-enums" if (data.get("env") or {}).get("VERIF_NUMERIC") == "1" else ""))
    env = dict(data.get("env") or {})
    env["VERIF_EMITTED"] = g.outdir
    rep, detail = ch.replay_call(os.path.join(core.VERIF, data["harness"]), data["call"], env)
    return f"{data['call']} -> {detail}" if rep else None


if __name__ == "__main__":
    core.run_check("C04", __doc__.strip().splitlines()[0], body, replay)
