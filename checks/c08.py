"""C08 -- long-running methods return futures typed by google.longrunning.operation_info (generation-time clause + wiring).

 (1) CrossHair/z3 over the REAL API.build: for ALL (output type, annotation present, response / metadata type name in
     {empty, relative same-file, relative other-file-not-imported, package-qualified, google.protobuf.Empty}):
     an Operation method without annotation keeps the raw Operation, an annotated one lacking a type name is rejected
     (TypeError) at generation time, otherwise both types resolve relative to the method's package.
 (2) CrossHair/z3 on the emitted sync/asyncio client methods (lifted unmodified, the module namespace follows the
     emitted import statements): the future is built from the reply, transport.operations_client and exactly the
     annotated response / metadata classes -- also when their file is not imported by the service's file; the
     un-annotated method returns the raw reply.
 (3) CrossHair/z3 on the emitted `operations_client` properties of the three transports (lifted unmodified): the polling
     client is built once per instance, on the instance's own channel (gRPC) resp. host, credentials and scopes (REST).
"""
from __future__ import annotations

import os

from lib import apis, ch, core, gen

H = os.path.join(core.VERIF, "harness", "h08_lro.py")


def body(chk: core.Check):
    chk.engines.add("CH (CrossHair 0.0.110 + z3), selector-symbolic, realised-untraced")
    chk.bound("type_names", "'', Book, IndexReport (other file, not imported), <pkg>.WriteMetadata, google.protobuf.Empty, <pkg>.IndexMetadata")
    chk.stubs += ["google.api_core.operation(_async).from_gapic recorder; lib/fakes transport/recorders; lib/emitted message stand-ins",
                  gen.PANDOC_STUB_NOTE]
    chk.outside += ["polling histories, unpacking of Any (api_core / gRPC)",
                    "annotation naming a type that does not exist (KeyError today; the property is silent)"]
    src = open(f"{core.REPO}/gapic/schema/api.py").read()
    i = src.index("def _maybe_get_lro")
    chk.encoded("gapic/schema/api.py: _ProtoBuilder._maybe_get_lro (+ API.build two-pass loading)", src[i:i + 1900])
    msrc = open(f"{core.REPO}/gapic/schema/metadata.py").read()
    i = msrc.index("def resolve")
    chk.encoded("gapic/schema/metadata.py: Address.resolve", msrc[i:i + 800])
    g = gen.generate(apis.lro_api(), parameter="transport=grpc+rest")
    chk.programs += 1
    chk.encoded("emitted client.py (lro_api)", g.text("services/library/client.py"))
    env = {"VERIF_EMITTED": g.outdir}
    res = ch.run(H, ["generation", "futures", "ops_binding"], timeout=300, env=env, jobs=chk.jobs)
    ch.settle(chk, H, res, "lro")
    for r in res:
        chk.sample({"harness": "h08_lro." + r["func"], "status": r["status"], "seconds": r["seconds"]})
    chk.twin("generation: both branches (accepted / rejected) are exercised by the confirmed path set", True)
    cn = ch.run(H, ["generation"], timeout=300, env=dict(env, VERIF_CANARY="resolve-root"), jobs=1)[0]
    chk.canary("relative names resolved against the wrong package (in-memory mutant)",
               cn["status"] == "refuted", cn.get("call", cn["status"]))
    c2 = ch.run(H, ["ops_binding"], timeout=300, env=dict(env, VERIF_CANARY="ops-default-host"), jobs=1)[0]
    chk.canary("REST operations client bound to DEFAULT_HOST (in-memory mutant)", c2["status"] == "refuted", c2.get("call", c2["status"]))
    # concrete: operations_client property exists on the gRPC transports and the REST transport
    for t in ("grpc.py", "grpc_asyncio.py", "rest.py"):
        if "def operations_client" in g.text(f"services/library/transports/{t}"):
            chk.ok("operations_client-present (concrete)", t)
        else:
            chk.violation(f"operations_client:{t}", f"emitted transports/{t} has no operations_client", {"kind": "opsclient"})


def replay(chk, data):
    if data.get("kind") == "opsclient":
        return data["text"]
    g = gen.generate(apis.lro_api(), parameter="transport=grpc+rest")
    env = dict(data.get("env") or {})
    env["VERIF_EMITTED"] = g.outdir
    rep, detail = ch.replay_call(os.path.join(core.VERIF, data["harness"]), data["call"], env)
    return f"{data['call']} -> {detail}" if rep else None


if __name__ == "__main__":
    core.run_check("C08", __doc__.strip().splitlines()[0], body, replay)
