"""C09 -- default retry and timeout of each method equal its gRPC service-config entry (generator-side half).

 (1) CrossHair/z3 on the real _ProtoBuilder._get_retry_and_timeout for ALL service configs within the bound
     (<= 2/3 entries, <= 2 names per entry from a menu with the target, prefix-related methods, another service, a
     service-level name; timeout present/absent/fractional/nanos; retryPolicy absent/codes only/full; every subset of 4
     status codes): the result is the FIRST entry naming the method exactly -- its timeout, its policy -- else (None, None).
 (2) per rendered program (concrete): the emitted _prep_wrapped_messages, run against recording wrap_method / Retry
     stand-ins, gives every method the selected entry's default_timeout, deadline, predicate classes and backoff values;
     unnamed methods get default_timeout=None and no retry; sync and async transports agree.
 (3) all 17 canonical status codes map to the documented exception classes (finite table).
"""
from __future__ import annotations

import ast
import os
from types import SimpleNamespace as NS

from lib import apis, ch, core, gen

H = os.path.join(core.VERIF, "harness", "h09_retry.py")


class Rec:
    def __init__(self):
        self.wrapped = {}


def run_prep(src, cls_name):
    """lift _prep_wrapped_messages from the emitted base transport and run it against recorders"""
    tree = ast.parse(src)
    cls = [n for n in tree.body if isinstance(n, ast.ClassDef) and n.name == cls_name][0]
    fn = [n for n in cls.body if isinstance(n, ast.FunctionDef) and n.name == "_prep_wrapped_messages"][0]
    mod = ast.Module(body=[fn], type_ignores=[])
    ast.fix_missing_locations(mod)
    from google.api_core import exceptions as core_exceptions
    out = {}

    def wrap_method(func, default_retry=None, default_timeout=None, client_info=None, **kw):
        out[func] = {"retry": default_retry, "timeout": default_timeout, "extra": kw}
        return func
    ns = {"gapic_v1": NS(method=NS(wrap_method=wrap_method), method_async=NS(wrap_method=wrap_method)),
          "retries": NS(Retry=lambda **kw: ("Retry", kw), AsyncRetry=lambda **kw: ("Retry", kw),
                        if_exception_type=lambda *a: ("if", tuple(sorted(x.__name__ for x in a)))),
          "core_exceptions": core_exceptions}
    exec(compile(mod, "emitted:base.py:_prep_wrapped_messages", "exec"), ns)

    class Me:
        def __getattr__(self, name):
            return "rpc:" + name
    ns["_prep_wrapped_messages"](Me(), "CLIENT_INFO")
    me = Me()
    return out


def expected_for(cfg, service, method):
    import grpc
    from google.api_core import exceptions
    for e in cfg.get("methodConfig", []):
        if {"service": service, "method": method} in e.get("name", []):
            t = e.get("timeout")
            timeout = None if not t else (int(t[:-1]) / 1e9 if t.endswith("n") else float(t[:-1]))
            r = e.get("retryPolicy")
            if r is None:
                return timeout, None
            kw = {}
            for k_cfg, k_py in (("initialBackoff", "initial"), ("maxBackoff", "maximum")):
                v = float(r.get(k_cfg, "0s")[:-1])
                if v:
                    kw[k_py] = v
            if r.get("backoffMultiplier", 0.0):
                kw["multiplier"] = r["backoffMultiplier"]
            kw["predicate"] = ("if", tuple(sorted(exceptions.exception_class_for_grpc_status(getattr(grpc.StatusCode, c)).__name__
                                                 for c in r.get("retryableStatusCodes", []))))
            kw["deadline"] = timeout
            return timeout, ("Retry", kw)
    return None, None


STATUS = {"OK": None, "CANCELLED": "Cancelled", "UNKNOWN": "Unknown", "INVALID_ARGUMENT": "InvalidArgument",
          "DEADLINE_EXCEEDED": "DeadlineExceeded", "NOT_FOUND": "NotFound", "ALREADY_EXISTS": "AlreadyExists",
          "PERMISSION_DENIED": "PermissionDenied", "RESOURCE_EXHAUSTED": "ResourceExhausted",
          "FAILED_PRECONDITION": "FailedPrecondition", "ABORTED": "Aborted", "OUT_OF_RANGE": "OutOfRange",
          "UNIMPLEMENTED": "MethodNotImplemented", "INTERNAL": "InternalServerError", "UNAVAILABLE": "ServiceUnavailable",
          "DATA_LOSS": "DataLoss", "UNAUTHENTICATED": "Unauthenticated"}


def program_diff(idx):
    cfg = apis.RETRY_CONFIGS[idx]
    g = gen.generate(apis.retry_api(), parameter="transport=grpc+rest", retry_config=cfg)
    bad = {}
    oks = []
    for svc, sdir in (("Library", "library"), ("Other", "other")):
        src = g.text(f"services/{sdir}/transports/base.py")
        got = run_prep(src, f"{svc}Transport")
        fdp = apis.retry_api()[0].f
        methods = [m.name for s in fdp.service if s.name == svc for m in s.method]
        import keyword
        for m in methods:
            import re
            attr = re.sub(r"(?<!^)(?=[A-Z])", "_", m).lower()
            if keyword.iskeyword(attr):
                attr += "_"
            timeout, retry = expected_for(cfg, f"google.example.rt.v1.{svc}", m)
            g_ = got.get("rpc:" + attr)
            key = f"cfg{idx}:{svc}.{m}"
            if g_ is None:
                bad[key] = f"{attr} is not wrapped in _prep_wrapped_messages"
            elif g_["timeout"] != timeout or g_["retry"] != retry:
                bad[key] = f"emitted defaults (timeout={g_['timeout']}, retry={g_['retry']}) != selected entry (timeout={timeout}, retry={retry})"
            else:
                oks.append(key)
    return oks, bad, g


def body(chk: core.Check):
    quick = chk.tier == "quick"
    chk.engines.add("CH (CrossHair 0.0.110 + z3), selector-symbolic, realised-untraced")
    nmax = "2" if quick else "3"
    chk.bound("config_entries", int(nmax))
    chk.bound("names_per_entry", 2)
    chk.bound("status_codes", "every subset of {UNAVAILABLE, DEADLINE_EXCEEDED, ABORTED, INTERNAL} (first entry), 2 codes (second)")
    chk.stubs += ["wrap_method / Retry / if_exception_type recorders for the emitted _prep_wrapped_messages", gen.PANDOC_STUB_NOTE]
    chk.outside += ["_to_float on arbitrary duration strings (float parsing is C code; menu of 4 durations)",
                    "the retry loop, sleeps and deadlines themselves (api_core.retry); explicit per-call overrides beyond their "
                    "being handed to the wrapped method (C03 dispatch) and threaded through the pagers (here)"]
    src = open(f"{core.REPO}/gapic/schema/api.py").read()
    i = src.index("def _get_retry_and_timeout")
    chk.encoded("gapic/schema/api.py: _ProtoBuilder._get_retry_and_timeout/_to_float", src[i:i + 3300])
    parts = [{"VERIF_PART": str(i)} for i in range(6)]
    env = {"VERIF_NMAX": nmax}
    res = ch.run(H, ["select_single", "select_multi"], timeout=400 if quick else 3000, env=env, jobs=chk.jobs, partitions=parts)
    ch.settle(chk, H, res, "select")
    for r in res[:2]:
        chk.sample({"harness": "h09_retry." + r["func"], "partition": r["env"].get("VERIF_PART"), "status": r["status"], "seconds": r["seconds"]})
    tw = ch.run(H, ["twin"], timeout=120, env=env, jobs=1)[0]
    chk.twin("select: a second entry naming the target with policy and codes is reachable", tw["status"] == "refuted")
    cn = ch.run(H, ["select_single"], timeout=400, env=dict(env, VERIF_CANARY="prefix-match", VERIF_PART="0"), jobs=1)[0]
    chk.canary("prefix matching of method names (in-memory mutant)", cn["status"] == "refuted", cn.get("call", cn["status"]))
    # (2) programs
    for idx in range(len(apis.RETRY_CONFIGS)):
        oks, bad, g = program_diff(idx)
        chk.programs += 1
        for k in oks:
            chk.ok("emitted-defaults (concrete)", k)
        for k, text in bad.items():
            chk.violation(k, text, {"kind": "program", "cfg": idx, "diff_key": k})
        chk.encoded(f"emitted transports/base.py _prep_wrapped_messages (config {idx})", g.text("services/library/transports/base.py"))
    # (2b) explicit per-call overrides on paged methods: every follow-up page request of the emitted pagers carries the
    # caller's retry/timeout/metadata (shared pager harness of C07, small history bound)
    if chk.only("pager-overrides"):
        hp = os.path.join(core.VERIF, "harness", "h07_pager.py")
        gp = gen.generate(apis.paging_api(), parameter="transport=grpc+rest")
        chk.programs += 1
        envp = {"VERIF_EMITTED": gp.outdir, "VERIF_NP": "3", "VERIF_NI": "1"}
        chk.encoded("emitted pagers.py (paging_api): pages loops", open(gp.path("services/library/pagers.py")).read())
        chk.bound("pager_override_histories", "<= 3 pages x <= 1 item, sync and asyncio ListBooks pagers")
        resp = ch.run(hp, ["sync_books", "async_books"], timeout=300, env=envp, jobs=chk.jobs)
        ch.settle(chk, hp, resp, "pager-overrides")
    # (3) status-code table
    import grpc
    from google.api_core import exceptions
    for code, cls in STATUS.items():
        if cls is None:
            continue
        got = exceptions.exception_class_for_grpc_status(getattr(grpc.StatusCode, code)).__name__
        if got == cls:
            chk.ok("status-table (concrete)", code)
        else:
            chk.fail_inconclusive(f"api_core maps {code} to {got}, documented {cls} (api_core, not this repository)")


def replay(chk, data):
    if data.get("kind") == "program":
        _oks, bad, _g = program_diff(data["cfg"])
        return bad.get(data["diff_key"])
    env = dict(data.get("env") or {})
    if str(data.get("harness", "")).endswith("h07_pager.py"):
        env["VERIF_EMITTED"] = gen.generate(apis.paging_api(), parameter="transport=grpc+rest").outdir
    rep, detail = ch.replay_call(os.path.join(core.VERIF, data["harness"]), data["call"], env)
    return f"{data['call']} -> {detail}" if rep else None


if __name__ == "__main__":
    core.run_check("C09", __doc__.strip().splitlines()[0], body, replay)
