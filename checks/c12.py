"""C12 -- reserved-word and colliding names are disambiguated without altering the wire.

BSTR (z3 integer characters, real code read from /repo): for EVERY identifier within the bound, each
schema-side renamer (Field.name, convert_uri_fieldnames, HttpRule body, FieldHeader.disambiguated,
Method.client_method_name, Method.transport_safe_name) renames iff reserved, by exactly one '_', per
dotted segment, and leaves everything else untouched (the wire-side string is its input).
CrossHair/z3 (selector menus): proto file-name disambiguation (closure lifted from API.build) ends outside
the forbidden set and the visited set; the module name bound by the rendered import line is the head of the
rendered type reference (alias / module / module_pb2).  Reserved flattened parameters (class_ / from_ / dotted
book.class) are run end-to-end on the emitted client methods with the C05 harness; the RPC wire path of keyword-named
RPCs is diffed against the descriptors (shared with C03).
"""
from __future__ import annotations

import os

from checks import _renamers
from lib import ch, core

H = os.path.join(core.VERIF, "harness", "h12_names.py")


def body(chk: core.Check):
    quick = chk.tier == "quick"
    chk.engines |= {"BSTR (exact backtracking order, z3 ints)", "CH (CrossHair 0.0.110 + z3), selector-symbolic"}
    chk.bound("identifier_length", "single identifiers <= 22 chars (covers every reserved word incl. "
              "ignore_unknown_fields); dotted paths: 2 segments <= 6/8, 3 segments <= 4/6 (quick/thorough); "
              "URI variables: segments <= 4/6; RPC names <= 16 over [A-Za-z_]")
    chk.bound("alphabet", "[a-z_] for field identifiers, [A-Za-z_] for RPC names")
    chk.outside += ["that the renamed entity is reachable in the imported library and the wire shows the original "
                    "(import + runtime observation)", "MessageType.get_field / Method._fields_mapping plumbing "
                    "(exercised concretely by the C05 harness: class_, from_)"]
    chk.assumptions.append("file names and module names come from stated menus (CrossHair part)")
    if chk.only("renamers"):
        core.parallel_parts(chk, [(_renamers.check_field_name, quick), (_renamers.check_http_body, quick),
                                  (_renamers.check_method_names, quick), (_renamers.check_field_header_disambiguated, quick),
                                  (_renamers.check_convert_uri, quick)])
    if chk.only("wire"):
        # RPC path on the wire stays the original (keyword-named / transport-unsafe RPCs): concrete diff of the emitted
        # gRPC stub tables against the descriptors, shared with C03
        from checks import c03 as _c03
        from lib import apis, gen
        g = gen.generate(apis.client_api(), parameter="transport=grpc+rest", service_yaml=apis.CLIENT_SERVICE_YAML)
        chk.programs += 1
        oks, bad, _tables = _c03.table_diff(g)
        for k in oks:
            chk.ok("rpc-wire-path (concrete diff)", k)
        for k, text in bad.items():
            chk.violation(k, text, {"kind": "stub-table", "diff_key": k})
    if chk.only("flattened"):
        # reserved-word flattened parameters (top-level `class`/`from`, dotted leaf `book.class`) end-to-end on the emitted
        # sync/async client methods: parameter is <word>_, the wire key is the original (shared client harness, C05)
        from checks import _client
        _client.common(chk)
        gc = _client.render(chk, everything=True)   # incl. samples/tests of the keyword-named RPC `Import`
        _client.run_funcs(chk, gc, ["flat_tag_book", "flat_classify_book"], "reserved-flattened-parameters", 300,
                          partitions=_client.KIND_PARTS)
    if chk.only("rest-wire"):
        # JSON keys of reserved-word REQUIRED fields on the REST wire: the emitted default table is keyed by the original
        # name (`class`), not by the disambiguated attribute (`class_`) -- shared harness of C04 on the emitted rest_base.py
        from lib import apis, gen
        h4 = os.path.join(core.VERIF, "harness", "h04_rest.py")
        g4 = gen.generate(apis.rest_api(), parameter="transport=grpc+rest")
        chk.programs += 1
        res4 = ch.run(h4, ["required_get"], timeout=300, env={"VERIF_EMITTED": g4.outdir, "VERIF_NUMERIC": "0"}, jobs=chk.jobs)
        ch.settle(chk, h4, res4, "rest-wire-keys")
    if chk.only("names"):
        hm = ch.load_module(H)
        chk.encoded("gapic/schema/api.py: API.build.disambiguate_keyword_sanitize_fname (+ invalid_module_names)", hm.LIFTED_SRC)
        msrc = open(f"{core.REPO}/gapic/schema/metadata.py").read()
        i = msrc.index("def __str__")
        chk.encoded("gapic/schema/metadata.py: Address.__str__/module_alias/python_import", msrc[i:i + 6000])
        psrc = open(f"{core.REPO}/gapic/schema/api.py").read()
        i = psrc.index("def names(self)")
        chk.encoded("gapic/schema/api.py: Proto.names (module-name collisions of one file)", psrc[i:i + 1500])
        res = ch.run(H, ["fname", "alias", "proto_names"], timeout=300, env={}, jobs=chk.jobs)
        ch.settle(chk, H, res, "names")
        for r in res:
            chk.sample({"harness": "h12_names." + r["func"], "status": r["status"], "seconds": r["seconds"]})
        tw = ch.run(H, ["twin"], timeout=120, env={}, jobs=1)[0]
        chk.twin("fname: import.proto with import.proto already visited reaches the checks", tw["status"] == "refuted")
        cn = ch.run(H, ["fname"], timeout=300, env={"VERIF_CANARY": "no-control-words"}, jobs=1)[0]
        chk.canary("'metadata' missing from the invalid module names (in-memory mutant)", cn["status"] == "refuted",
                   cn.get("call", cn["status"]))


def replay(chk, data):
    if data.get("kind") == "renamer":
        return _renamers.replay(data)
    if data.get("kind") == "stub-table":
        from checks import c03 as _c03
        from lib import apis, gen
        g = gen.generate(apis.client_api(), parameter="transport=grpc+rest", service_yaml=apis.CLIENT_SERVICE_YAML)
        return _c03.table_diff(g)[1].get(data["diff_key"])
    if str(data.get("harness", "")).endswith("h04_rest.py"):
        from lib import apis, gen
        env = dict(data.get("env") or {})
        env["VERIF_EMITTED"] = gen.generate(apis.rest_api(), parameter="transport=grpc+rest").outdir
        rep_, detail = ch.replay_call(os.path.join(core.VERIF, data["harness"]), data["call"], env)
        return f"{data['call']} -> {detail}" if rep_ else None
    if str(data.get("harness", "")).endswith("h_client.py"):
        from checks import _client
        return _client.replay(chk, data)
    rep, detail = ch.replay_call(os.path.join(core.VERIF, data["harness"]), data["call"], data.get("env"))
    return f"{data['call']} -> {detail}" if rep else None


if __name__ == "__main__":
    core.run_check("C12", __doc__.strip().splitlines()[0], body, replay)
