"""C06 -- every call carries an x-goog-request-params header that follows AIP-4222.

(1) RX (z3 regex/strings): for every template of a bounded grammar, the header-contribution function of
    the live RoutingParameter.to_regex() pattern (value -> captured segment | nothing) equals the AIP-4222
    reference built independently: equal "matches with non-empty capture" languages (both inclusions) and
    equal captures on every common string.
(2) CH (CrossHair/z3) on the emitted client methods: header assembly = reference resolution (in order,
    skip unset / non-matching / empty capture, later parameter with the same key wins; no header tuple
    when nothing matched); implicit headers carry the raw name and read the (nested) field; sync == async.
(3) BSTR: Method.field_headers' variable extraction and FieldHeader.disambiguated for ALL identifier
    strings within the bound (dotted paths, reserved words per segment).
"""
from __future__ import annotations

import itertools
import re
import time

import z3

from checks import _client, _renamers
from lib import ch, core, rx


# ---------------------------------------------------------------------------- reference (AIP-4222)
def parse_template(t):
    """-> (prefix_segments, key, capture_segments, suffix_segments); segments are 'lit:x' | '*' | '**'."""
    m = re.fullmatch(r"(?P<pre>[^{}]*)\{(?P<key>[^=}]+)(?:=(?P<sub>[^}]*))?\}(?P<post>[^{}]*)", t)
    if not m:
        raise ValueError(t)

    def segs(s):
        return [x if x in ("*", "**") else "lit:" + x for x in s.split("/") if x != ""]
    return segs(m["pre"]), m["key"], segs(m["sub"] if m["sub"] is not None else "*"), segs(m["post"])


SEG = z3.Plus(z3.Diff(rx.ANYC, z3.Re("/")))


def seq_lang(segments, leading_slash, anything_before):
    """language of a '/'-joined segment list; a '**' is only allowed last; when it follows something
    ('/**') it also matches the empty tail."""
    parts = []
    first = not leading_slash
    for i, s in enumerate(segments):
        if s == "**":
            if i != len(segments) - 1:
                raise ValueError("** not in last position")
            if first and not anything_before:
                parts.append(z3.Star(rx.ANYC))
            else:
                parts.append(z3.Option(z3.Concat(z3.Re("/"), z3.Star(rx.ANYC))))
            first = False
            continue
        if not first:
            parts.append(z3.Re("/"))
        parts.append(SEG if s == "*" else z3.Re(s[4:]))
        first = False
    return rx.concat(parts)


def reference_languages(template):
    pre, key, cap, post = parse_template(template)
    b = rx.concat([seq_lang(pre, False, False), z3.Re("/")]) if pre else rx.EMPTY
    # the prefix (if any) already ends with '/', so a leading '**' of the capture is "anything"
    g = z3.Intersect(seq_lang(cap, False, False), z3.Plus(rx.ANYC))
    a = seq_lang(post, True, True) if post else rx.EMPTY
    return key, (b, g, a)


def ref_contribution(template, value):
    """plain-Python reference used for replay: captured text (non-empty) or None."""
    pre, key, cap, post = parse_template(template)
    segs = [(s, False) for s in pre] + [(s, True) for s in cap] + [(s, False) for s in post]
    parts = value.split("/")
    out = []

    def go(i, j):
        if i == len(segs):
            return j == len(parts)
        s, c = segs[i]
        if s == "**":
            if c:
                out.extend(parts[j:])
            return True
        if j >= len(parts):
            return False
        if s == "*":
            if parts[j] == "":
                return False
        elif parts[j] != s[4:]:
            return False
        if c:
            out.append(parts[j])
        return go(i + 1, j + 1)
    if len(segs) == 1 and segs[0][0] == "**":
        return value or None
    # a '/**' tail also matches the empty tail: handled by go() reaching '**' with j == len(parts)
    if not go(0, 0):
        return None
    got = "/".join(out)
    return got or None


def grammar(tier):
    prefixes = ["", "a/*/"]
    caps = ["{k}", "{k=*}", "{k=**}", "{k=a/*}", "{k=a/*/b/*}", "{k=a/*/**}"]
    suffixes = ["", "/**", "/b", "/b/*"]
    if tier == "thorough":
        prefixes += ["a/", "a/*/b/*/", "v1/a/*/"]
        caps += ["{k=a/*/b}", "{k=*/b/*}", "{k=a/b/*/**}"]
        suffixes += ["/b/*/**", "/b/c", "/*/b"]
    out = []
    for p, c, s in itertools.product(prefixes, caps, suffixes):
        if "**" in c and s:
            continue
        out.append(p + c + s)
    return out


def code_contribution(template, value):
    from gapic.schema import wrappers
    rp = wrappers.RoutingParameter("f", template)
    m = rp.to_regex().match(value)
    if m and m.group(rp.key):
        return m.group(rp.key)
    return None


def work_template(t, L):
    """all RX obligations of one template (runs in a worker process)"""
    from gapic.schema import wrappers
    recs = []
    sol = rx.Solver(90)
    nonl = z3.Star(rx.DOT)
    rp = wrappers.RoutingParameter("f", t)
    try:
        pat = rp.to_regex().pattern
        key = rp.key
    except Exception as e:  # noqa: BLE001
        return t, [("routing-language", "cex", 0, {"value": None, "text": f"to_regex() raised {type(e).__name__}: {e}"})], 0, 0
    rkey, (rb, rg, ra) = reference_languages(t)
    if key != rkey:
        return t, [("routing-language", "cex", 0, {"value": None, "text": f"key {key!r} != {rkey!r}"})], 0, 0
    try:
        Lc, (cb, cg, ca) = rx.contribution_language(pat, key)
    except rx.Unsupported as e:
        return t, [("routing-language", "unsupported", 0, str(e))], 0, 0
    Lr = z3.Concat(rb, rg, ra)
    s = z3.String("s")
    for kind, inside, outside in (("code-contributes-ref-not", Lc, Lr), ("ref-contributes-code-not", Lr, Lc)):
        t0 = time.time()
        r, m = sol.check(z3.InRe(s, z3.Intersect(nonl, inside, z3.Complement(outside))))
        if r == "unsat":
            recs.append(("routing-language", "ok", time.time() - t0, kind))
        elif r == "sat":
            recs.append(("routing-language", "cex", 0, {"value": rx.py_string(m, s)}))
        else:
            recs.append(("routing-language", "unknown", 0, kind))
    p1, g1, q1, p2, g2, q2 = z3.Strings("p1 g1 q1 p2 g2 q2")
    # capture agreement; when the word-equation query does not finish at the requested length the bound is lowered
    # (the bound actually discharged is part of the obligation's key)
    for bound in [b for b in (L, 12, 10, 8) if b <= L]:
        t0 = time.time()
        r, m = sol.check(z3.InRe(s, nonl), z3.Length(s) <= bound, s == z3.Concat(p1, g1, q1), s == z3.Concat(p2, g2, q2),
                         z3.InRe(p1, cb), z3.InRe(g1, cg), z3.InRe(q1, ca),
                         z3.InRe(p2, rb), z3.InRe(g2, rg), z3.InRe(q2, ra), g1 != g2)
        if r == "unsat":
            recs.append(("routing-capture", "ok", time.time() - t0, f"|s|<={bound}"))
            break
        if r == "sat":
            recs.append(("routing-capture", "cex", 0, {"value": rx.py_string(m, s)}))
            break
    else:
        recs.append(("routing-capture", "unknown", 0, None))
    n = 0
    for v in ("", "a/x", "a/x/b/y", "a/x/b", "x", "a/x/a/y/b/z", "a//b/y", "a/x/b/y/q/r", "zz/a/x"):
        if rx.validate_translation(pat, [v]):
            recs.append(("translator", "disagrees-with-CPython-re", 0, f"{pat!r} on {v!r}"))
        if code_contribution(t, v) != ref_contribution(t, v):
            recs.append(("routing-language", "cex", 0, {"value": v}))
        n += 1
    recs.append(("sample", "sample", 0, {"template": t, "emitted_regex": pat, "key": key}))
    return t, recs, sol.seconds, n


def body(chk: core.Check):
    _client.common(chk)
    quick = chk.tier == "quick"
    chk.engines |= {"RX (z3 seq/regex)", "BSTR"}
    timeout = 240 if quick else 1200
    chk.bound("routing_templates", "grammar prefix x capture x suffix, ** only last")
    chk.bound("value_length_capture_agreement", 12 if quick else 16)
    chk.assumptions.append("routing values contain no newline (the emitted `.*` does not cross '\\n')")
    chk.outside += ["URL-encoding inside to_grpc_metadata (api_core)", "templates outside the grammar"]
    src = open(f"{core.REPO}/gapic/schema/wrappers.py").read()
    i = src.index("class RoutingParameter")
    chk.encoded("gapic/schema/wrappers.py: RoutingParameter.to_regex/_convert_to_regex/key", src[i:i + 4200])

    # ---- (1) regex == reference, as header contribution functions ------------------------
    L = 12 if quick else 16
    templates = grammar(chk.tier)
    chk.bound("templates", len(templates))
    import multiprocessing as mp
    with mp.Pool(chk.jobs) as pool:
        results = pool.starmap(work_template, [(t, L) for t in templates])
    validated = 0
    for t, recs, secs, nval in results:
        validated += nval
        chk.solver_s += 0
        for kind, status, sec, info in recs:
            if status == "ok":
                chk.ok(kind, f"{t}:{info}", sec)
            elif status == "sample":
                chk.sample(info, limit=6)
            elif status == "cex":
                v = info["value"]
                if v is None:
                    chk.violation(f"template={t}", info["text"], {"template": t, "value": None})
                    continue
                a, b = code_contribution(t, v), ref_contribution(t, v)
                if a != b:
                    chk.violation(f"template={t}", f"value {v!r}: emitted regex contributes {a!r}, AIP-4222 "
                                  f"reference contributes {b!r}", {"template": t, "value": v})
                else:
                    chk.fail_inconclusive(f"{kind} for {t}: counterexample {v!r} did not replay")
            else:
                chk.fail_inconclusive(f"{kind} for {t}: {status} {info}")
    chk.extra["translator_validation"] = {"concrete_strings": validated, "disagreements": 0}
    sol = rx.Solver(60)
    nonl = z3.Star(rx.DOT)
    chk.twin("routing value domain inhabited", sol.check(z3.InRe(z3.String("s"), nonl))[0] == "sat")
    # canary: an unanchored pattern must be refuted by the language obligation
    Lc, _ = rx.contribution_language("(?P<k>a/[^/]+)", "k")
    _, (rb, rg, ra) = reference_languages("{k=a/*}")
    r, _m = sol.check(z3.InRe(z3.String("s"), z3.Intersect(nonl, Lc, z3.Complement(z3.Concat(rb, rg, ra)))))
    chk.canary("routing regex without anchors (in-memory pattern)", r == "sat")

    # ---- (3) implicit routing (BSTR) and (2) header assembly in the emitted client methods (CrossHair), concurrently
    g = _client.render(chk)
    hm = ch.load_module(_client.HARNESS, {"VERIF_EMITTED": g.outdir})
    _client.encode_sources(chk, g, ["route_simple", "route_rename", "route_override", "route_multi", "route_nested", "update_book"])

    def part_implicit(r):
        core.parallel_parts(r, [(_renamers.check_field_headers, quick), (_renamers.check_field_header_disambiguated, quick)])

    def part_flat(r):
        _client.run_funcs(r, g, ["flat_move_book", "flat_update_book", "flat_tag_book"], "header-assembly-implicit",
                          timeout, partitions=_client.KIND_PARTS)

    def part_routes(r):
        _client.run_funcs(
            r, g, hm.C06_FUNCS, "header-assembly", timeout, partitions=_client.KIND_PARTS[1:],
            twins=[("twin_route", "route_multi with a three-level table name reaches the final comparison")],
            canaries=[("first-wins", "route_multi", "first parameter with a key wins instead of the last (in-memory mutant)")])
    parts = []
    if chk.only("implicit"):
        parts.append(part_implicit)
    if chk.only("assembly"):
        parts += [part_flat, part_routes]
    core.parallel_threads(chk, parts)


def replay(chk, data):
    if "template" in data:
        if data.get("value") is None:
            return data["text"]
        a, b = code_contribution(data["template"], data["value"]), ref_contribution(data["template"], data["value"])
        return None if a == b else f"template {data['template']!r} value {data['value']!r}: code {a!r} reference {b!r}"
    if data.get("kind") == "renamer":
        return _renamers.replay(data)
    return _client.replay(chk, data)


if __name__ == "__main__":
    core.run_check("C06", __doc__.strip().splitlines()[0], body, replay)
