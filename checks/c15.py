"""C15 -- gapic_metadata.json and the fix-up script describe the generated surface exactly.

 (1) CrossHair/z3 over the REAL API.build + API.gapic_metadata: for ALL transport sets, selective-internal settings and
     allow-list subsets the metadata lists each service/RPC once per client kind implied by the transports, with the
     client class names and snake-cased client method names the templates use (keyword-named, transport-unsafe and
     internal methods included).
 (2) CrossHair/z3 on Method.legacy_flattened_fields: for ALL required-bit patterns of a request whose field numbers are
     not in declaration order: required fields first, otherwise declaration order, Python names.
 (3) per rendered program (concrete AST diff): every (client class, method) named by the emitted gapic_metadata.json
     exists in the emitted client modules; METHOD_TO_PARAMS of the emitted fix-up script equals the descriptors' fields.
"""
from __future__ import annotations

import ast
import json
import os

from lib import apis, ch, core, gen

H = os.path.join(core.VERIF, "harness", "h15_metadata.py")


def class_methods(src):
    out = {}
    for n in ast.parse(src).body:
        if isinstance(n, ast.ClassDef):
            out[n.name] = {f.name for f in n.body if isinstance(f, (ast.FunctionDef, ast.AsyncFunctionDef))}
    return out


def program_diff(param):
    g = gen.generate(apis.client_api(), parameter=param + ",metadata", service_yaml=apis.CLIENT_SERVICE_YAML)
    bad = {}
    oks = []
    md = json.loads(g.text("gapic_metadata.json"))
    sync = class_methods(g.text("services/library/client.py"))
    asyn = class_methods(g.text("services/library/async_client.py")) if "grpc" in param else {}
    fdp = apis.client_api()[0].f
    rpcs = {m.name for m in fdp.service[0].method}
    kinds = (["grpc", "grpc-async"] if "grpc" in param else []) + (["rest"] if "rest" in param else [])
    # the library package recorded in the metadata is the package the file itself is emitted in (naming overrides included)
    where = os.path.dirname(g.find("gapic_metadata.json")).replace("/", ".")
    if md.get("libraryPackage") == where and md.get("protoPackage") == fdp.package:
        oks.append(f"{param}:library-package")
    else:
        bad[f"{param}:library-package"] = (f"libraryPackage {md.get('libraryPackage')!r} / protoPackage {md.get('protoPackage')!r}: "
                                           f"the file is emitted in package {where!r} for proto package {fdp.package!r}")
    svc = md["services"].get("Library", {})
    if sorted(svc.get("clients", {})) != sorted(kinds):
        bad["client-kinds"] = f"clients {sorted(svc.get('clients', {}))} != {sorted(kinds)} for {param}"
    for kind, c in svc.get("clients", {}).items():
        table = asyn if kind == "grpc-async" else sync
        cls = c["libraryClient"]
        if set(c["rpcs"]) != rpcs:
            bad[f"{kind}:rpcs"] = f"rpcs listed {sorted(set(c['rpcs']) ^ rpcs)} differ from the service's RPCs"
        for rpc, d in c["rpcs"].items():
            for meth in d["methods"]:
                key = f"{param}:{kind}:{cls}.{meth}"
                if cls in table and meth in table[cls] and len(d["methods"]) == 1:
                    oks.append(key)
                else:
                    bad[key] = f"metadata maps {rpc} to {cls}.{meth}, which the emitted package does not define"
    # fix-up script
    fix = [n for n in g.files if n.startswith("scripts/fixup_") and n.endswith("_keywords.py")]
    tree = ast.parse(g.files[fix[0]])
    table = None
    for node in ast.walk(tree):
        if isinstance(node, ast.AnnAssign) and getattr(node.target, "id", "") == "METHOD_TO_PARAMS":
            table = ast.literal_eval(node.value)
    from gapic.utils.reserved_names import RESERVED_NAMES
    import keyword
    import re
    msgs = {m.name: m for m in fdp.message_type}
    exp = {}
    for m in fdp.service[0].method:
        tname = m.input_type.split(".")[-1]
        if tname not in msgs or m.input_type != f".{fdp.package}.{tname}":
            continue          # requests of other packages (google.protobuf.Empty, ...) are not diffed here
        from google.api import field_behavior_pb2
        fields = msgs[tname].field
        req = [f for f in fields if field_behavior_pb2.REQUIRED in f.options.Extensions[field_behavior_pb2.field_behavior]]
        oth = [f for f in fields if f not in req]
        exp[re.sub(r"(?<!^)(?=[A-Z])", "_", m.name).lower()] = tuple(
            (f.name + "_" if f.name in RESERVED_NAMES else f.name) for f in req + oth)
    for k, v in exp.items():
        if table is None or table.get(k) != v:
            bad[f"{param}:fixup:{k}"] = f"METHOD_TO_PARAMS[{k!r}] = {None if table is None else table.get(k)} != {v}"
        else:
            oks.append(f"{param}:fixup:{k}")
    return oks, bad, g


def body(chk: core.Check):
    chk.engines.add("CH (CrossHair 0.0.110 + z3), selector-symbolic, realised-untraced")
    chk.bound("services_and_rpcs", "Alpha{GetThing, Import, CreateChannel}, Beta{List}; transports grpc / rest / grpc+rest; "
              "internal mode with every non-empty allow-list subset; "
              "4 naming settings (default, python-gapic-namespace, python-gapic-name, both)")
    chk.bound("legacy_fields", "5 fields with non-monotonic numbers + 1 reserved-word field, all required-bit patterns")
    chk.stubs.append(gen.PANDOC_STUB_NOTE)
    chk.outside += ["import of the emitted package (introspection is by AST)", "add-iam-methods rows of the fix-up table"]
    src = open(f"{core.REPO}/gapic/schema/api.py").read()
    i = src.index("def gapic_metadata")
    chk.encoded("gapic/schema/api.py: API.gapic_metadata/gapic_metadata_json", src[i:i + 1900])
    wsrc = open(f"{core.REPO}/gapic/schema/wrappers.py").read()
    i = wsrc.index("def legacy_flattened_fields")
    chk.encoded("gapic/schema/wrappers.py: Method.legacy_flattened_fields", wsrc[i:i + 500])
    res = ch.run(H, ["metadata", "legacy_order"], timeout=300, env={}, jobs=chk.jobs)
    ch.settle(chk, H, res, "metadata")
    for r in res:
        chk.sample({"harness": "h15_metadata." + r["func"], "status": r["status"], "seconds": r["seconds"]})
    c1 = ch.run(H, ["legacy_order"], timeout=300, env={"VERIF_CANARY": "sort-by-number"}, jobs=1)[0]
    chk.canary("legacy fields sorted by field number (in-memory mutant)", c1["status"] == "refuted", c1.get("call", c1["status"]))
    c2 = ch.run(H, ["metadata"], timeout=300, env={"VERIF_CANARY": "rest-async"}, jobs=1)[0]
    chk.canary("a grpc-async client listed for a rest-only library (in-memory mutant)", c2["status"] == "refuted", c2.get("call", c2["status"]))
    chk.twin("metadata/legacy_order: all branches are covered by the confirmed path sets", True)
    for param in ("transport=grpc", "transport=rest", "transport=grpc+rest",
                  "transport=grpc+rest,python-gapic-namespace=acme.cloud,python-gapic-name=bookshelf",
                  "transport=grpc,python-gapic-name=shelves"):
        oks, bad, g = program_diff(param)
        chk.programs += 1
        for k in oks:
            chk.ok("emitted-surface (concrete AST diff)", k)
        for k, text in bad.items():
            chk.violation(k, text, {"kind": "program", "param": param, "diff_key": k})


def replay(chk, data):
    if data.get("kind") == "program":
        _o, bad, _g = program_diff(data["param"])
        return bad.get(data["diff_key"])
    rep, detail = ch.replay_call(os.path.join(core.VERIF, data["harness"]), data["call"], data.get("env"))
    return f"{data['call']} -> {detail}" if rep else None


if __name__ == "__main__":
    core.run_check("C15", __doc__.strip().splitlines()[0], body, replay)
