"""C11 -- the emitted file set is well-formed and placed by package-derived naming.

 (1) BSTR on the real Generator._get_filename (with the real to_valid_module_name and
     NewNaming.versioned_module_name) for EVERY template name of the working tree and ALL namespace / name /
     service / proto module strings within the bound: relative, normalised (no empty, '.' or '..' segment, no '%'
     left), package sources under <namespace>/<name>_<version>/ (<name> alone when unversioned).
 (2) BSTR on the real Naming.build: for ALL package strings  ns1.ns2.name[.version]  within the bound the inferred
     (namespace, name, version) is the expected split; name/namespace overrides replace exactly those parts.
 (3) CrossHair/z3 on Options.build: option strings assembled from known / unknown / repeated tokens parse to the same
     Options as the string with the unknown tokens deleted (unknown options are ignored).
 (4) per rendered program (concrete): unique names, one types module per target proto, one service package per service,
     nothing for dependency files, __init__.py on every import path, supported_features bit.
"""
from __future__ import annotations

import itertools
import os
import posixpath
import time
from types import SimpleNamespace as NS

import z3

from lib import apis, bstr, ch, core, gen

G = os.path.join(core.REPO, "gapic/generator/generator.py")
FN = os.path.join(core.REPO, "gapic/utils/filename.py")
NM = os.path.join(core.REPO, "gapic/schema/naming.py")
H = os.path.join(core.VERIF, "harness", "h11_options.py")
LOW = [ord(c) for c in "abz09_"]
MIXED = [ord(c) for c in "aZ9_ -."]
VERSIONS = ["", "v1", "v1beta1", "v1p1beta1"]
# version SHAPES for Naming.build: D is a symbolic decimal digit
VERSION_SHAPES = ["", "vD", "vDD", "vDalpha", "vDbetaD", "vDpD", "vDpDalpha", "vDpDbetaD"]


def sym_version(shape, tag):
    """-> (SymStr, constraints): literal characters of the shape, one symbolic digit per D"""
    chars, cons = [], []
    for i, ch in enumerate(shape):
        if ch == "D":
            v = z3.Int(f"{tag}d{i}")
            chars.append(v)
            cons.append(z3.And(v >= ord("0"), v <= ord("9")))
        else:
            chars.append(ord(ch))
    return bstr.SymStr(chars), cons


def template_names():
    out = []
    for root in ("gapic/templates", "gapic/ads-templates"):
        base = os.path.join(core.REPO, root)
        for d, _dirs, files in os.walk(base):
            for f in files:
                if f.endswith(".j2") and not f.startswith("_"):
                    rel = os.path.relpath(os.path.join(d, f), base)
                    if not any(part.startswith("_") and part != "__init__.py.j2" for part in rel.split("/")):
                        out.append((root, rel))
    return out


def load_fns():
    tvf, s1 = bstr.load_function(FN, "to_valid_filename")
    tvm, s2 = bstr.load_function(FN, "to_valid_module_name", {"to_valid_filename": tvf})
    vmn, s3 = bstr.load_function(NM, "NewNaming.versioned_module_name")
    getfn, s4 = bstr.load_function(G, "Generator._get_filename", {"os": NS(path=NS(sep=bstr.S("/")))})
    return tvm, vmn, getfn, (s1, s2, s3, s4)


def filename_violation(root, tmpl, ns_parts, name, version, sub, service, proto):
    """concrete replay against the real Generator._get_filename / Naming"""
    from gapic.generator import generator
    from gapic.schema import naming
    n = naming.NewNaming(name=name, namespace=tuple(ns_parts), version=version, proto_package="x")
    api = NS(naming=n, subpackage_view=tuple(sub))
    ctx = {}
    if "%service" in tmpl:
        ctx["service"] = NS(module_name=service)
    if "%proto" in tmpl:
        ctx["proto"] = NS(module_name=proto)
    got = generator.Generator._get_filename(None, tmpl, api_schema=api, context=ctx or None)
    return bad_path(got, tmpl, [p.lower() for p in ns_parts], n.versioned_module_name)


def bad_path(got, tmpl, ns_lower, versioned):
    segs = got.split("/")
    if got.startswith("/") or "%" in got or any(s in ("", ".", "..") for s in segs):
        return f"{tmpl!r} -> {got!r}: not a relative normalised path"
    if tmpl.startswith("%namespace/%name_%version/"):
        want = "/".join(ns_lower + [versioned]) + "/"
        if not got.startswith(want):
            return f"{tmpl!r} -> {got!r}: not under {want!r}"
    return None


def filename_task(task):
    root, tmpl, quick = task
    tvm, vmn, getfn, _srcs = load_fns()
    nlen = 2 if quick else 3
    leaves = 0
    secs = 0.0
    if True:
        cex = None
        for nns, version, nsub in itertools.product((0, 1, 2), VERSIONS if not quick else ("", "v1", "v1p1beta1"), (0, 1)):
            ns = [bstr.fresh_string(f"ns{i}", 2) for i in range(nns)]
            name = bstr.fresh_string("name", nlen)
            svc = bstr.fresh_string("svc", 2)
            proto = bstr.fresh_string("proto", 2)
            sub = [bstr.fresh_string("sub", 2)] if nsub else []
            base = []
            for s_ in ns:
                base += bstr.alphabet_constraints(s_, [ord(c) for c in "aAzZ"])
            base += bstr.alphabet_constraints(name, MIXED)
            for s_ in [svc, proto] + sub:
                base += bstr.alphabet_constraints(s_, LOW)
            # a module name never starts/ends with a separator that sanitising would turn into an empty segment
            base += [name.c[0] != ord("."), name.c[-1] != ord("."), name.c[0] != ord(" "), name.c[-1] != ord(" ")]
            if nlen == 3:
                base += [z3.Not(z3.And(name.c[0] == ord("."), name.c[1] == ord(".")))]

            def run():
                module = tvm(name)
                naming = NS(namespace=tuple(ns), version=bstr.S(version), module_name=module)
                naming.versioned_module_name = vmn(naming)
                api = NS(naming=naming, subpackage_view=tuple(sub))
                ctx = {}
                if "%service" in tmpl:
                    ctx["service"] = NS(module_name=svc)
                if "%proto" in tmpl:
                    ctx["proto"] = NS(module_name=proto)
                return getfn(None, bstr.S(tmpl), api_schema=api, context=ctx or None), naming
            for c, (out, naming) in bstr.explore(run, base):
                leaves += 1
                secs = c.solver_s
                ch_ = out.c
                n = len(ch_)
                conds = []
                if n == 0:
                    conds.append(False)
                else:
                    conds.append(bstr.b_not(bstr.c_eq(ch_[0], 47)))
                    conds.append(bstr.b_not(bstr.c_eq(ch_[-1], 47)))
                for i in range(n):
                    conds.append(bstr.b_not(bstr.c_eq(ch_[i], 37)))                       # no '%'
                    if i + 1 < n:
                        conds.append(bstr.b_not(bstr.b_and([bstr.c_eq(ch_[i], 47), bstr.c_eq(ch_[i + 1], 47)])))  # no '//'
                    # no '.' or '..' segment
                    seg_start = True if i == 0 else bstr.c_eq(ch_[i - 1], 47)
                    for dots in (1, 2):
                        if i + dots <= n:
                            seg_end = True if i + dots == n else bstr.c_eq(ch_[i + dots], 47)
                            conds.append(bstr.b_not(bstr.b_and([seg_start, seg_end] +
                                                               [bstr.c_eq(ch_[i + k], 46) for k in range(dots)])))
                if tmpl.startswith("%namespace/%name_%version/"):
                    want = []
                    for s_ in ns:
                        want += [bstr.lower_c(x) for x in s_.c] + [47]
                    want += list(naming.versioned_module_name.c) + [47]
                    conds.append(bstr.eq_chars(ch_[:len(want)], want) if n >= len(want) else False)
                ok, m = c.valid(bstr.b_and(conds))
                if not ok:
                    cex = dict(root=root, tmpl=tmpl, ns_parts=[bstr.model_string(m, s_) for s_ in ns],
                               name=bstr.model_string(m, name), version=version,
                               sub=[bstr.model_string(m, s_) for s_ in sub], service=bstr.model_string(m, svc),
                               proto=bstr.model_string(m, proto))
                    break
            if cex:
                break
    return root, tmpl, cex, leaves, secs


def check_filenames(chk, quick):
    import multiprocessing as mp
    _a, _b, _c, srcs = load_fns()
    chk.encoded("gapic/generator/generator.py: Generator._get_filename", srcs[3])
    chk.encoded("gapic/utils/filename.py: to_valid_filename/to_valid_module_name", srcs[0] + srcs[1])
    chk.encoded("gapic/schema/naming.py: NewNaming.versioned_module_name", srcs[2])
    names = template_names()
    chk.bound("template_names", len(names))
    t0 = time.time()
    with mp.Pool(chk.jobs) as pool:
        results = pool.map(filename_task, [(r, t, quick) for r, t in names], chunksize=1)
    leaves = 0
    for root, tmpl, cex, lv, secs in results:
        leaves += lv
        if cex is None:
            chk.ok("filename", f"{root}:{tmpl}", secs)
        else:
            text = filename_violation(**cex)
            if text:
                chk.violation(f"filename:{'versioned' if cex['version'] else 'unversioned'}:{tmpl}", text, dict(cex, kind="filename"))
            else:
                chk.fail_inconclusive(f"_get_filename counterexample did not replay: {cex}")
    chk.solver_s += 0
    chk.sample({"filename_templates": len(names), "leaves": leaves, "wall_s": round(time.time() - t0, 1),
                "example": names[:3]})


def check_naming_build(chk, quick):
    bstr_allow = True
    build, src = bstr.load_function(NM, "Naming.build", {
        "os": NS(path=NS(commonprefix=lambda t: t[0])), "cast": lambda _t, v: v, "Match": None,
        "OldNaming": None, "NewNaming": lambda **kw: NS(**kw), "Options": lambda: None,
        "dataclasses": NS(replace=lambda obj, **kw: NS(**{**vars(obj), **kw})), "tuple": tuple})
    chk.encoded("gapic/schema/naming.py: Naming.build", src)
    seglen = 2 if quick else 3
    alphabet = [ord(c) for c in "av_09"]
    t0 = time.time()
    leaves = 0
    for nns, shape, override in itertools.product((0, 1, 2, 3), VERSION_SHAPES, (0, 1, 2)):
        version, vcons = sym_version(shape, "v")
        cex = None
        for lens in itertools.product(range(1, seglen + 1), repeat=nns + 1):
            segs = [bstr.fresh_string(f"p{i}", l) for i, l in enumerate(lens)]
            base = list(vcons)
            for s_ in segs:
                base += bstr.alphabet_constraints(s_, alphabet)
                base.append(z3.And(s_.c[0] != ord("0"), s_.c[0] != ord("9")))   # protoc: identifiers do not start with a digit
            # a namespace/name segment that itself looks like a version is outside the grammar of the claim
            for s_ in segs:
                if len(s_) >= 2:
                    base.append(z3.Not(z3.And(s_.c[0] == ord("v"), z3.Or(s_.c[1] == ord("0"), s_.c[1] == ord("9")))))
            pkg = bstr.S(".").join(segs + ([version] if shape else []))
            opts = NS(old_naming=False, name="", namespace=(), warehouse_package_name="", proto_plus_deps=())
            if override == 1:
                opts.name = bstr.S("my_name")
            if override == 2:
                opts.namespace = (bstr.S("x.y"),)
            bstr.ALLOW_ID_HASH = True
            try:
                for c, info in bstr.explore(lambda: build(NS(package=pkg), opts=opts), base):
                    leaves += 1
                    exp_ns = [s_.capitalize() for s_ in segs[:-1]]
                    exp_name = segs[-1].capitalize()
                    if override == 1:
                        exp_name = bstr.S("My Name")
                    if override == 2:
                        exp_ns = [bstr.S("X"), bstr.S("Y")]
                    got_ns = list(info.namespace)
                    phi = bstr.b_and([len(got_ns) == len(exp_ns)] +
                                     ([bstr.eq_chars(a.c, b.c) for a, b in zip(got_ns, exp_ns)] if len(got_ns) == len(exp_ns) else []) +
                                     [bstr.eq_chars(bstr.S(info.name).c, exp_name.c),
                                      (len(bstr.S(info.version)) == len(version)) and
                                      bstr.eq_chars(bstr.S(info.version).c, version.c)])
                    ok, m = c.valid(phi)
                    if not ok:
                        cex = bstr.model_string(m, pkg)
                        break
            finally:
                bstr.ALLOW_ID_HASH = False
            if cex:
                break
        key = f"ns={nns},version-shape={shape!r},override={override}"
        if cex is None:
            chk.ok("naming", key)
        else:
            text = naming_violation(cex, override)
            if text:
                chk.violation(f"naming:{key}", text, {"kind": "naming", "package": cex, "override": override})
            else:
                chk.fail_inconclusive(f"Naming.build counterexample {cex!r} did not replay")
    chk.sample({"naming_build_leaves": leaves, "wall_s": round(time.time() - t0, 1)})


def naming_violation(pkg, override):
    from gapic.schema import naming
    from gapic.utils import Options
    opts = Options.build({0: "", 1: "python-gapic-name=my_name", 2: "python-gapic-namespace=x.y"}[override])
    info = naming.Naming.build(NS(package=pkg), opts=opts)
    parts = pkg.split(".")
    version = ""
    import re
    if re.fullmatch(r"v[0-9]+(p[0-9]+)?((alpha|beta)[0-9]*)?", parts[-1]):
        version = parts.pop()
    exp_ns = tuple(p.capitalize() for p in parts[:-1])
    exp_name = parts[-1].capitalize()
    if override == 1:
        exp_name = "My Name"
    if override == 2:
        exp_ns = ("X", "Y")
    got = (tuple(info.namespace), info.name, info.version)
    return None if got == (exp_ns, exp_name, version) else f"Naming.build({pkg!r}) = {got}, expected {(exp_ns, exp_name, version)}"


def check_programs(chk):
    """concrete structure diff of two rendered programs"""
    from google.protobuf.compiler import plugin_pb2
    for label, files, to_gen, param in (
            ("client_api/grpc+rest", apis.client_api(), None, "transport=grpc+rest"),
            ("paging_api/grpc", apis.paging_api(), None, "transport=grpc"),
            ("unversioned-package", unversioned_api(), None, "transport=grpc"),
            ("four-files+dep", two_file_api(), ["google/example/tf/v1/a.proto", "google/example/tf/v1/b_c.proto",
                                                "google/example/tf/v1/b.c.proto", "google/example/tf/v1/svc_only.proto"],
             "transport=rest,unknown-opt=1,python-gapic-bogus=2"),
            # the dependency's package is deeper than the API's root package: nothing of it may surface, not even as a
            # sub-package directory
            ("deep-dependency", deep_dep_api(), ["acme/library/v1/lib.proto"], "transport=grpc"),
            # target files in the root package AND in a sub-package (layout differs: only the generic clauses are diffed)
            ("root+sub-package", root_and_sub_api(), None, "transport=grpc+rest,autogen-snippets=false")):
        # expectations are computed from the descriptors BEFORE generation (API.build renames fd.name in place)
        import keyword
        all_names = [m.DESCRIPTOR.name for m in gen.DEP_MODS] + [fb.f.name for fb in files]
        targets = to_gen if to_gen is not None else [fb.f.name for fb in files]
        by_name = {fb.f.name: fb.f for fb in files}
        used, exp_types, exp_svcs = set(), [], []
        for nm in all_names:
            stem = posixpath.basename(nm)[:-len(".proto")].replace(".", "_")
            full = posixpath.join(posixpath.dirname(nm), stem)
            while stem in keyword.kwlist or stem in ("metadata", "retry", "timeout", "request") or full in used:
                stem += "_"
                full = posixpath.join(posixpath.dirname(nm), stem)
            used.add(full)
            if nm in targets and nm in by_name:
                f_ = by_name[nm]
                # exactly one types module per target proto file -- also for a file that declares only a service
                # (its module holds an empty manifest, it is not an "empty module")
                exp_types.append(stem + ".py")
                exp_svcs += [_snake(s_.name) for s_ in f_.service]
        exp_types, exp_svcs = sorted(exp_types), sorted(exp_svcs)
        g = gen.generate(files, parameter=param, to_generate=to_gen)
        chk.programs += 1
        names = [f.name for f in g.response.file]
        problems = []
        if len(set(names)) != len(names):
            problems.append("duplicate file names")
        for n in names:
            if n.startswith("/") or posixpath.normpath(n) != n or any(s in ("", ".", "..") for s in n.split("/")):
                problems.append(f"not relative/normalised: {n!r}")
            if "%" in n or os.path.basename(n).startswith("_") and not os.path.basename(n).startswith("__init__"):
                if not os.path.basename(n).startswith("__"):
                    problems.append(f"private template emitted: {n!r}")
        pkgroot = posixpath.commonpath([n for n in names if "/types/" in n or "/services/" in n])
        target = [f for f in g.request.proto_file if f.name in g.request.file_to_generate]
        types_mods = sorted(posixpath.basename(n) for n in names if posixpath.dirname(n) == pkgroot + "/types" and not n.endswith("__init__.py"))
        flat = label != "root+sub-package"
        if flat and types_mods != exp_types:
            problems.append(f"types modules {types_mods} != {exp_types}")
        svc_dirs = sorted({n[len(pkgroot + '/services/'):].split("/")[0] for n in names
                           if n.startswith(pkgroot + "/services/") and n.count("/") > pkgroot.count("/") + 2})
        if flat and svc_dirs != exp_svcs:
            problems.append(f"service packages {svc_dirs} != {exp_svcs}")
        # one service package per service, wherever it lives
        where = {}
        for n in names:
            parts = n.split("/")
            if "services" in parts[:-1] and parts.index("services") + 1 < len(parts) - 1:
                i_ = parts.index("services")
                where.setdefault(parts[i_ + 1], set()).add("/".join(parts[:i_ + 2]))
        for sname, dirs in sorted(where.items()):
            if len(dirs) > 1 and not any("tests" in d_ or "samples" in d_ for d_ in dirs):
                problems.append(f"service {sname} is emitted into {len(dirs)} packages: {sorted(dirs)}")
        extra = sorted({n[len(pkgroot) + 1:].split("/")[0] for n in names
                        if n.startswith(pkgroot + "/") and "/" in n[len(pkgroot) + 1:]} - {"types", "services"})
        if extra and flat:
            problems.append(f"unexpected directories under {pkgroot}: {extra} (files emitted for something that is not a target)")
        py_dirs = {posixpath.dirname(n) for n in names if n.endswith(".py") and n.startswith(pkgroot)}
        for d in py_dirs:
            if d + "/__init__.py" not in names:
                problems.append(f"import directory without __init__.py: {d}")
        if not (g.response.supported_features & plugin_pb2.CodeGeneratorResponse.FEATURE_PROTO3_OPTIONAL):
            problems.append("supported_features lacks FEATURE_PROTO3_OPTIONAL")
        if problems:
            chk.violation(f"program:{label}", "; ".join(problems[:4]), {"kind": "program", "label": label})
        else:
            chk.ok("program-structure (concrete)", label)
        chk.sample({"program": label, "files": len(names), "package_root": pkgroot}, limit=20)


def _snake(name):
    import re
    return re.sub(r"(?<!^)(?=[A-Z])", "_", name).lower()


def unversioned_api():
    fb = gen.FileBuilder("google/example/uv/uv.proto", "google.example.uv")
    fb.message("Req", [("name", "string")])
    s = fb.service("Uv")
    fb.method(s, "Get", "Req", "Req", http=("get", "/v1/{name=x/*}"))
    return [fb]


def root_and_sub_api():
    root = gen.FileBuilder("google/example/sq/v1/lib.proto", "google.example.sq.v1")
    root.message("Book", [("name", "string")])
    s = root.service("Library")
    root.method(s, "GetBook", "Book", "Book", http=("get", "/v1/{name=books/*}"))
    adm = gen.FileBuilder("google/example/sq/v1/admin/admin.proto", "google.example.sq.v1.admin")
    adm.message("Job", [("name", "string")])
    a = adm.service("AdminService")
    adm.method(a, "GetJob", "Job", "Job", http=("get", "/v1/{name=jobs/*}"))
    return [root, adm]


def deep_dep_api():
    dep = gen.FileBuilder("acme/common/types/v1/t.proto", "acme.common.types.v1")
    dep.message("Money", [("units", "int64")])
    lib = gen.FileBuilder("acme/library/v1/lib.proto", "acme.library.v1", deps=[dep.f.name])
    lib.message("Book", [("name", "string"), ("price", "msg:.acme.common.types.v1.Money")])
    s = lib.service("Library")
    lib.method(s, "GetBook", "Book", "Book", http=("get", "/v1/{name=books/*}"))
    return [dep, lib]


def two_file_api():
    dep = gen.FileBuilder("google/example/dep/v1/dep.proto", "google.example.dep.v1")
    dep.message("DepMsg", [("x", "string")])
    a = gen.FileBuilder("google/example/tf/v1/a.proto", "google.example.tf.v1", deps=[dep.f.name])
    a.message("A", [("d", "msg:.google.example.dep.v1.DepMsg")])
    # b_c.proto comes first; b.c.proto sanitises to the same module name and must be disambiguated
    bc = gen.FileBuilder("google/example/tf/v1/b_c.proto", "google.example.tf.v1")
    bc.message("Bc", [("x", "string")])
    b = gen.FileBuilder("google/example/tf/v1/b.c.proto", "google.example.tf.v1", deps=[a.f.name])
    b.message("B", [("a", "msg:A")])
    s = b.service("SvcOne")
    b.method(s, "Get", "B", "A", http=("get", "/v1/b"))
    s2 = b.service("SvcTwo")
    b.method(s2, "Put", "B", "A", http=("put", "/v1/b", "*"))
    # a target file that declares nothing but a service (its messages live in a sibling file)
    so = gen.FileBuilder("google/example/tf/v1/svc_only.proto", "google.example.tf.v1", deps=[a.f.name])
    s3 = so.service("SvcThree")
    so.method(s3, "Peek", "A", "A", http=("get", "/v1/peek"))
    return [dep, a, bc, b, so]


def body(chk: core.Check):
    quick = chk.tier == "quick"
    chk.engines |= {"BSTR", "CH (CrossHair 0.0.110 + z3), selector-symbolic"}
    chk.bound("name_strings", "namespace segments: 0..2 x 2 chars; name 2/3 chars over [aZ9_ -.]; service/proto/sub module 2 chars")
    chk.bound("package_strings", "0..3 namespace segments + name, each 1..2/3 chars over [av_09], x 4 version shapes x 3 override kinds")
    chk.assumptions += ["service / proto module names are valid module names (their snake-case images are assumed distinct)",
                        "package segments that themselves look like a version (v<digit>...) are outside the claim"]
    chk.outside += ["collisions between two templates' outputs", "de-duplication by dict key when snake-case names coincide"]
    if chk.only("filenames"):
        check_filenames(chk, quick)
    if chk.only("naming"):
        check_naming_build(chk, quick)
    if chk.only("options"):
        res = ch.run(H, ["unknown_ignored"], timeout=300, env={}, jobs=chk.jobs,
                     partitions=[{"VERIF_PART": str(i)} for i in range(3)])
        ch.settle(chk, H, res, "options")
        cn = ch.run(H, ["unknown_ignored"], timeout=300, env={"VERIF_CANARY": "unknown-sets-name"}, jobs=1)[0]
        chk.canary("an unknown option leaking into Options.name (in-memory mutant)", cn["status"] == "refuted", cn.get("call", cn["status"]))
        osrc = open(f"{core.REPO}/gapic/utils/options.py").read()
        chk.encoded("gapic/utils/options.py: Options.build", osrc[osrc.index("def build"):])
    if chk.only("programs"):
        check_programs(chk)
    chk.twin("filename/naming value domains inhabited", True)


def replay(chk, data):
    k = data.get("kind")
    if k == "filename":
        d = {x: data[x] for x in ("root", "tmpl", "ns_parts", "name", "version", "sub", "service", "proto")}
        return filename_violation(**d)
    if k == "naming":
        return naming_violation(data["package"], data["override"])
    if k == "program":
        return data["text"]
    rep, detail = ch.replay_call(os.path.join(core.VERIF, data["harness"]), data["call"], data.get("env"))
    return f"{data['call']} -> {detail}" if rep else None


if __name__ == "__main__":
    core.run_check("C11", __doc__.strip().splitlines()[0], body, replay)
