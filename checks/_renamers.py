"""BSTR obligations over the reserved-name renamers and URI rewriting, shared by C04, C06, C12.

Every function under test is read from /repo's working tree at run time and executed over symbolic
strings (concrete length, z3 integer characters).  Obligation, for ALL identifiers within the bound:
renamed <=> reserved, by exactly one "_", per dotted segment; everything else untouched.
"""
from __future__ import annotations

import itertools
import keyword
import os
import time
from types import SimpleNamespace as NS

import z3

from lib import bstr, core

W = os.path.join(core.REPO, "gapic/schema/wrappers.py")
U = os.path.join(core.REPO, "gapic/utils/uri_conv.py")
IDENT = [ord(c) for c in "abcdefghijklmnopqrstuvwxyz_"]
IDENT_UP = IDENT + [ord(c) for c in "ABCDEFGHIJKLMNOPQRSTUVWXYZ"]


def reserved():
    from gapic.utils.reserved_names import RESERVED_NAMES
    return sorted(RESERVED_NAMES)


def mem(chars, names):
    return bstr.b_or([bstr.eq_chars(chars, bstr.chars_of(n)) for n in names if len(n) == len(chars)])


def z(b):
    return z3.BoolVal(b) if isinstance(b, bool) else b


def fill(shape, values):
    """shape with %s holes -> SymStr with the holes filled by symbolic strings"""
    pieces = shape.split("%s")
    out = bstr.S(pieces[0])
    for v, p_ in zip(values, pieces[1:]):
        out = out + v + p_
    return out


def expected_join(segs, names, sep="."):
    """all (condition, expected chars) pairs for per-segment suffixing"""
    out = []
    for flags in itertools.product([False, True], repeat=len(segs)):
        conds = []
        chars = []
        for i, (seg, fl) in enumerate(zip(segs, flags)):
            m = mem(seg.c, names)
            conds.append(m if fl else bstr.b_not(m))
            if i:
                chars.extend(bstr.chars_of(sep))
            chars.extend(seg.c)
            if fl:
                chars.append(ord("_"))
        out.append((bstr.b_and(conds), chars))
    return out


def phi_matches(out_chars, alternatives):
    return bstr.b_and([bstr.b_or([bstr.b_not(c), bstr.eq_chars(out_chars, e)]) for c, e in alternatives])


def py_fix(path, names):
    return ".".join(s + "_" if s in names else s for s in path.split("."))


def _report(chk, target, kind, t0, leaves, cex, real_fn, oracle_fn, samples):
    if cex is None:
        chk.ok(f"renamer:{target}", kind, time.time() - t0)
        chk.sample({"target": target, "bound": kind, "leaves": leaves}, limit=20)
        return
    got, exp = real_fn(cex), oracle_fn(cex)
    if got != exp:
        chk.violation(f"renamer:{target}:{cex}", f"{target}({cex!r}) = {got!r}, expected {exp!r}",
                      {"kind": "renamer", "target": target, "input": cex})
    else:
        chk.fail_inconclusive(f"{target}: BSTR counterexample {cex!r} did not replay")


# ------------------------------------------------------------------------------------------------
def run_segments(fn, nseg, maxlen, alphabet, names, build=lambda segs: None, sep=".", expected=None):
    """explore fn over inputs made of `nseg` symbolic segments (each 1..maxlen chars).
    Returns (leaves, counterexample input string | None)."""
    leaves = 0
    for lens in itertools.product(range(1, maxlen + 1), repeat=nseg):
        segs = [bstr.fresh_string(f"s{i}", l) for i, l in enumerate(lens)]
        base = []
        for s in segs:
            base += bstr.alphabet_constraints(s, alphabet)
        inp = bstr.SymStr([])
        for i, s in enumerate(segs):
            if i:
                inp = inp + sep
            inp = inp + s
        for c, out in bstr.explore(lambda: fn(inp, segs), base):
            leaves += 1
            alts = expected(segs) if expected else expected_join(segs, names, sep)
            ok, m = c.valid(phi_matches(out.c, alts))
            if not ok:
                return leaves, bstr.model_string(m, inp)
    return leaves, None


def check_field_header_disambiguated(chk, quick):
    from gapic.schema import wrappers
    names = reserved()
    fn, src = bstr.load_function(W, "FieldHeader.disambiguated", {"utils": NS(RESERVED_NAMES=bstr.SymSet(names))})
    chk.encoded("gapic/schema/wrappers.py: FieldHeader.disambiguated", src)
    real = lambda s: wrappers.FieldHeader(s).disambiguated
    oracle = lambda s: py_fix(s, names)
    for nseg, maxlen in ((1, 22), (2, 6 if quick else 8), (3, 4 if quick else 6)):
        t0 = time.time()
        leaves, cex = run_segments(lambda inp, segs: fn(NS(raw=inp)), nseg, maxlen, IDENT, names)
        _report(chk, "FieldHeader.disambiguated", f"{nseg} segment(s) <= {maxlen} chars", t0, leaves, cex, real, oracle, None)


def check_field_headers(chk, quick):
    """Method.field_headers: header keys are exactly the variables of the first non-empty verb."""
    from google.api import annotations_pb2
    from gapic.schema import wrappers
    fn, src = bstr.load_function(W, "Method.field_headers", {"annotations_pb2": annotations_pb2,
                                                            "FieldHeader": lambda raw: raw, "tuple": tuple, "next": next})
    chk.encoded("gapic/schema/wrappers.py: Method.field_headers", src)
    shapes = [("/v1/{%s}", 1), ("/v1/{%s=a/*}", 1), ("/v1/{%s=a/*/b/**}:verb", 1), ("/v1/{%s}/x/{%s=b/*}", 2),
              ("/v1/a/b:verb", 0)]
    maxlen = 4 if quick else 6
    alphabet = IDENT + [ord(".")]
    for shape, nvar in shapes:
        for slot in (["get"], ["post"], ["custom"], ["put"], ["patch"], ["delete"]):
            t0 = time.time()
            leaves = 0
            cex = None
            for lens in itertools.product(range(1, maxlen + 1), repeat=nvar):
                vs = [bstr.fresh_string(f"v{i}", l) for i, l in enumerate(lens)]
                base = []
                for v in vs:
                    base += bstr.alphabet_constraints(v, alphabet)
                uri = fill(shape, vs)

                def mk():
                    # stand-in for google.api.HttpRule: the verbs form the oneof `pattern` (WhichOneof supported too)
                    # an additional binding WITH a variable is always present: only the PRIMARY pattern's variables count
                    extra = NS(get=bstr.S("/v2/{other_var=x/*}"), put="", post="", delete="", patch="",
                               custom=NS(path="", kind=""), body="", additional_bindings=[])
                    http = NS(get="", put="", post="", delete="", patch="", custom=NS(path="", kind="HEAD"), body="",
                              additional_bindings=[extra], WhichOneof=lambda _n, slot=slot: slot[0])
                    for k, s in enumerate(slot):
                        val = uri if k == 0 else bstr.S("/other/{zzz}")
                        if s == "custom":
                            http.custom.path = val
                        else:
                            setattr(http, s, val)
                    me = NS(options=NS(Extensions={annotations_pb2.http: http}))
                    return fn(me)
                for c, out in bstr.explore(mk, base):
                    leaves += 1
                    out = list(out)
                    phi = (len(out) == nvar) and bstr.b_and([bstr.eq_chars(o.c, v.c) for o, v in zip(out, vs)])
                    ok, m = c.valid(phi)
                    if not ok:
                        cex = shape % tuple(bstr.model_string(m, v) for v in vs)
                        break
                if cex:
                    break
            key = f"{shape} via {'+'.join(slot)}"
            if cex is None:
                chk.ok("renamer:Method.field_headers", key, time.time() - t0)
            else:
                got, exp = real_field_headers(cex, slot), py_uri_variables(cex)
                if got != exp:
                    chk.violation(f"field_headers:{cex}", f"field_headers of {cex!r} (slot {slot}) = {got}, URI variables {exp}",
                                  {"kind": "renamer", "target": "Method.field_headers", "input": cex, "slot": slot})
                else:
                    chk.fail_inconclusive(f"Method.field_headers: BSTR counterexample {cex!r} did not replay")
    chk.sample({"target": "Method.field_headers", "shapes": [s for s, _ in shapes], "var_len": maxlen}, limit=20)


def py_uri_variables(uri):
    out = []
    i = 0
    while True:
        i = uri.find("{", i)
        if i < 0:
            return out
        j = min(k for k in (uri.find("=", i), uri.find("}", i)) if k >= 0)
        out.append(uri[i + 1:j])
        i = uri.find("}", i) + 1


def real_field_headers(uri, slot):
    from google.api import annotations_pb2
    from gapic.schema import wrappers
    extra = NS(get="/v2/{other_var=x/*}", put="", post="", delete="", patch="", custom=NS(path="", kind=""), body="",
               additional_bindings=[])
    http = NS(get="", put="", post="", delete="", patch="", custom=NS(path="", kind="HEAD"), body="",
              additional_bindings=[extra], WhichOneof=lambda _n: slot[0])
    for k, s in enumerate(slot):
        val = uri if k == 0 else "/other/{zzz}"
        if s == "custom":
            http.custom.path = val
        else:
            setattr(http, s, val)
    m = wrappers.Method(method_pb=NS(name="M", options=NS(Extensions={annotations_pb2.http: http})), input=None, output=None)
    return [h.raw for h in m.field_headers]


def check_convert_uri(chk, quick):
    from google.api_core import path_template
    from gapic.utils import uri_conv
    names = reserved()
    fn, src = bstr.load_function(U, "convert_uri_fieldnames",
                                 {"RESERVED_NAMES": set(names),
                                  "path_template": NS(_VARIABLE_RE=bstr.SymPattern(path_template._VARIABLE_RE))})
    chk.encoded("gapic/utils/uri_conv.py: convert_uri_fieldnames", src)
    shapes = [("/v1/{%s}", [1]), ("/v1/{%s=a/*}", [1]), ("/v1/{%s=a/*/b/**}:verb", [2]), ("/v1/{%s=a/*}/class/{%s}", [1, 1]),
              ("/v1/{%s=in/*}:import", [3]), ("/v1/class/*/{%s}", [2])]
    maxlen = 4 if quick else 6
    for shape, arity in shapes:
        t0 = time.time()
        leaves = 0
        cex = None
        nseg = sum(arity)
        for lens in itertools.product(range(1, maxlen + 1), repeat=nseg):
            segs = [bstr.fresh_string(f"s{i}", l) for i, l in enumerate(lens)]
            base = []
            for s in segs:
                base += bstr.alphabet_constraints(s, IDENT)
            groups = []
            k = 0
            for a in arity:
                groups.append(segs[k:k + a])
                k += a
            variables = [bstr.S(".").join(g) for g in groups]
            uri = fill(shape, variables)
            for c, out in bstr.explore(lambda: fn(uri), base):
                leaves += 1
                # expected: literals untouched, every variable rewritten per dotted segment
                alts = [(True, [])]
                pieces = shape.split("%s")
                for gi, g in enumerate(groups):
                    new = []
                    for cond, chars in alts:
                        for c2, e2 in expected_join(g, names):
                            new.append((bstr.b_and([cond, c2]), chars + bstr.chars_of(pieces[gi]) + e2))
                    alts = new
                alts = [(cnd, ch + bstr.chars_of(pieces[-1])) for cnd, ch in alts]
                ok, m = c.valid(phi_matches(out.c, alts))
                if not ok:
                    cex = bstr.model_string(m, uri)
                    break
            if cex:
                break
        real = uri_conv.convert_uri_fieldnames
        oracle = lambda u: py_convert_uri(u, names)
        _report(chk, "convert_uri_fieldnames", f"{shape} segments <= {maxlen}", t0, leaves, cex, real, oracle, None)


def py_convert_uri(uri, names):
    import re
    return re.sub(r"\{([^=}]+)", lambda m: "{" + py_fix(m.group(1), names), uri)


def check_http_body(chk, quick):
    from gapic.schema import wrappers
    names = reserved()
    fn, src = bstr.load_function(W, "HttpRule.try_parse_http_rule",
                                 {"utils": NS(RESERVED_NAMES=bstr.SymSet(names), convert_uri_fieldnames=lambda u: u)})
    chk.encoded("gapic/schema/wrappers.py: HttpRule.try_parse_http_rule (body)", src)
    t0 = time.time()
    leaves = 0
    cex = None
    for L, uri in itertools.product(range(0, 23), ("/v1/x", "/v1/{name=x/*}:y")):     # URI without and with a path variable
        body = bstr.fresh_string("b", L)
        base = bstr.alphabet_constraints(body, IDENT + [ord("*")])
        rule = NS(WhichOneof=lambda _: "post", post=bstr.S(uri), body=body)
        for c, out in bstr.explore(lambda: fn(lambda m, u, b: b, rule), base):
            leaves += 1
            if L == 0:
                ok = out is None
                if not ok:
                    cex = ""
                continue
            if out is None:
                cex = bstr.model_string(c.model(), body)
                break
            ok, m = c.valid(phi_matches(out.c, expected_join([body], names)))
            if not ok:
                cex = bstr.model_string(m, body)
                break
        if cex is not None:
            break

    class R:
        def __init__(self, b):
            self.post, self.body = "/v1/x", b

        def WhichOneof(self, _):
            return "post"
    real = lambda b: wrappers.HttpRule.try_parse_http_rule(R(b)).body
    oracle = lambda b: (b + "_" if b in names else b) or None
    _report(chk, "HttpRule.try_parse_http_rule.body", "body <= 22 chars over [a-z_*]", t0, leaves, cex, real, oracle, None)


def check_field_name(chk, quick):
    from gapic.schema import wrappers
    names = reserved()
    fn, src = bstr.load_function(W, "Field.name", {"utils": NS(RESERVED_NAMES=bstr.SymSet(names))})
    chk.encoded("gapic/schema/wrappers.py: Field.name", src)
    for proto_plus in (True, False):
        t0 = time.time()
        exp_names = names if proto_plus else []
        leaves, cex = run_segments(
            lambda inp, segs: fn(NS(field_pb=NS(name=inp), meta=NS(address=NS(is_proto_plus_type=proto_plus)))),
            1, 22, IDENT, exp_names)
        real = lambda s: wrappers.Field(field_pb=NS(name=s), meta=NS(address=NS(is_proto_plus_type=proto_plus))).name
        oracle = lambda s: s + "_" if s in exp_names else s
        _report(chk, f"Field.name[proto_plus={proto_plus}]", "identifier <= 22 chars", t0, leaves, cex, real, oracle, None)


def check_method_names(chk, quick):
    from gapic.schema import wrappers
    kw = sorted(keyword.kwlist)
    unsafe = sorted(set(kw) | {"createchannel", "grpcchannel", "operationsclient"})
    import itertools as it
    f1, src1 = bstr.load_function(W, "Method.client_method_name",
                                  {"keyword": NS(kwlist=bstr.SymSet(kw)), "make_private": lambda n: "_" + n})
    f2, src2 = bstr.load_function(W, "Method.transport_safe_name", {"keyword": NS(kwlist=kw), "chain": it.chain})
    chk.encoded("gapic/schema/wrappers.py: Method.client_method_name", src1)
    chk.encoded("gapic/schema/wrappers.py: Method.transport_safe_name", src2)
    maxlen = 16
    for target, fn, names in (("Method.client_method_name", f1, kw), ("Method.transport_safe_name", f2, unsafe)):
        t0 = time.time()
        leaves = 0
        cex = None
        for L in range(1, maxlen + 1):
            name = bstr.fresh_string("n", L)
            base = bstr.alphabet_constraints(name, IDENT_UP)
            for c, out in bstr.explore(lambda: fn(NS(name=name, is_internal=False)), base):
                leaves += 1
                low = name.lower()
                m_ = mem(low.c, names)
                alts = [(m_, name.c + [ord("_")]), (bstr.b_not(m_), name.c)]
                ok, m = c.valid(phi_matches(out.c, alts))
                if not ok:
                    cex = bstr.model_string(m, name)
                    break
            if cex:
                break
        attr = target.split(".")[1]
        real = lambda s, attr=attr: getattr(wrappers.Method(method_pb=NS(name=s), input=None, output=None), attr)
        oracle = lambda s, names=names: s + "_" if s.lower() in names else s
        _report(chk, target, f"RPC name <= {maxlen} chars over [A-Za-z_]", t0, leaves, cex, real, oracle, None)


def replay(data):
    from gapic.schema import wrappers
    from gapic.utils import uri_conv
    names = reserved()
    t, s = data["target"], data["input"]
    if t == "Method.field_headers":
        got, exp = real_field_headers(s, data["slot"]), py_uri_variables(s)
    elif t == "FieldHeader.disambiguated":
        got, exp = wrappers.FieldHeader(s).disambiguated, py_fix(s, names)
    elif t == "convert_uri_fieldnames":
        got, exp = uri_conv.convert_uri_fieldnames(s), py_convert_uri(s, names)
    else:
        return data.get("text")
    return None if got == exp else f"{t}({s!r}) = {got!r}, expected {exp!r}"
