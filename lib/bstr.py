"""Engine BSTR: exact-priority bounded symbolic string executor.

A symbolic string (`SymStr`) has a CONCRETE length; its characters are z3 integer
terms (code points) or plain ints.  Real code from /repo is executed over these
values after a light AST rewrite (string constants and f-strings become SymStr
constructions) with a shim standing in for the `re` module.  Regular expressions are
matched by walking CPython's own parse tree (re._parser) depth-first in CPython's
backtracking order, so the match that is selected is the match CPython selects; each
choice that depends on symbolic characters becomes a *decision*.  Exploration is by
re-execution under a recorded decision prefix; each new decision is checked for
feasibility with z3 (both sides), infeasible sides are pruned.  Properties are
discharged at the leaves as validity queries (pc AND NOT phi unsat).

Symbolic length is handled by the caller running every length up to the bound.

Anything outside the supported subset raises Unsupported (-> exit code 2).
"""
from __future__ import annotations

import ast
import re as _re
import re._constants as sc
import re._parser as sp
import time
import types

import z3


ALLOW_ID_HASH = False


class Unsupported(Exception):
    pass


class Infeasible(Exception):
    pass


# --------------------------------------------------------------------------
# character predicates (ASCII model; callers restrict the alphabet to ASCII)
# --------------------------------------------------------------------------
WS_CODES = (9, 10, 11, 12, 13, 28, 29, 30, 31, 32)


def _conc(c):
    return isinstance(c, int)


def c_eq(c, k):
    if _conc(c) and _conc(k):
        return c == k
    return c == k


def c_in_range(c, lo, hi):
    if _conc(c):
        return lo <= c <= hi
    return z3.And(c >= lo, c <= hi)


def b_or(parts):
    out = []
    for p in parts:
        if p is True:
            return True
        if p is False:
            continue
        out.append(p)
    if not out:
        return False
    return out[0] if len(out) == 1 else z3.Or(*out)


def b_and(parts):
    out = []
    for p in parts:
        if p is False:
            return False
        if p is True:
            continue
        out.append(p)
    if not out:
        return True
    return out[0] if len(out) == 1 else z3.And(*out)


def b_not(p):
    if p is True:
        return False
    if p is False:
        return True
    return z3.Not(p)


def is_ws(c):
    if _conc(c):
        return c in WS_CODES
    return z3.Or(z3.And(c >= 9, c <= 13), z3.And(c >= 28, c <= 32))


def is_digit(c):
    return c_in_range(c, 48, 57)


def is_word(c):
    return b_or([c_in_range(c, 48, 57), c_in_range(c, 65, 90), c_in_range(c, 97, 122), c_eq(c, 95)])


def is_upper(c):
    return c_in_range(c, 65, 90)


def is_lower(c):
    return c_in_range(c, 97, 122)


def lower_c(c):
    if _conc(c):
        return ord(chr(c).lower()) if c < 128 else c
    return z3.If(z3.And(c >= 65, c <= 90), c + 32, c)


def upper_c(c):
    if _conc(c):
        return ord(chr(c).upper()) if c < 128 else c
    return z3.If(z3.And(c >= 97, c <= 122), c - 32, c)


def cat_pred(av, c):
    if av is sc.CATEGORY_SPACE:
        return is_ws(c)
    if av is sc.CATEGORY_NOT_SPACE:
        return b_not(is_ws(c))
    if av is sc.CATEGORY_WORD:
        return is_word(c)
    if av is sc.CATEGORY_NOT_WORD:
        return b_not(is_word(c))
    if av is sc.CATEGORY_DIGIT:
        return is_digit(c)
    if av is sc.CATEGORY_NOT_DIGIT:
        return b_not(is_digit(c))
    raise Unsupported(f"category {av}")


def cls_pred(items, c):
    neg = False
    ps = []
    for op, av in items:
        if op is sc.NEGATE:
            neg = True
        elif op is sc.LITERAL:
            ps.append(c_eq(c, av))
        elif op is sc.RANGE:
            ps.append(c_in_range(c, av[0], av[1]))
        elif op is sc.CATEGORY:
            ps.append(cat_pred(av, c))
        else:
            raise Unsupported(f"class item {op}")
    p = b_or(ps)
    return b_not(p) if neg else p


# --------------------------------------------------------------------------
# execution context: decisions, feasibility, exploration
# --------------------------------------------------------------------------
class Ctx:
    def __init__(self, base_constraints=(), timeout_ms=5000):
        self.solver = z3.Solver()
        self.solver.set("timeout", timeout_ms)
        self.solver.add(*base_constraints)
        self.checks = 0
        self.solver_s = 0.0
        self.prefix = []
        self.decisions = []
        self.pending = []
        self.pc = []
        self.leaves = 0
        self.runs = 0

    # -- one run
    def start(self, prefix):
        self.prefix = list(prefix)
        self.decisions = []
        self.pending = []
        self.pc = []
        self.solver.push()
        self.runs += 1

    def stop(self):
        self.solver.pop()

    def _check(self, *assumptions):
        t = time.time()
        r = self.solver.check(*assumptions)
        self.solver_s += time.time() - t
        self.checks += 1
        rs = str(r)
        if rs == "unknown":
            raise Unsupported("z3 unknown in feasibility check")
        return rs == "sat"

    def _assume(self, cond):
        self.pc.append(cond)
        self.solver.add(cond)

    def branch(self, cond) -> bool:
        if cond is True or cond is False:
            return cond
        if isinstance(cond, SymBool):
            cond = cond.cond
            if cond is True or cond is False:
                return cond
        cond = z3.simplify(cond)
        if z3.is_true(cond):
            return True
        if z3.is_false(cond):
            return False
        i = len(self.decisions)
        if i < len(self.prefix):
            d = self.prefix[i]
            self.decisions.append(d)
            self._assume(cond if d else z3.Not(cond))
            return d
        t_ok = self._check(cond)
        if not t_ok:
            self.decisions.append(False)
            self._assume(z3.Not(cond))
            return False
        f_ok = self._check(z3.Not(cond))
        if f_ok:
            self.pending.append(self.decisions + [False])
        self.decisions.append(True)
        self._assume(cond)
        return True

    def choose(self, n_or_conds):
        """Pick the first index whose condition holds (priority order); None if none."""
        for i, c in enumerate(n_or_conds):
            if self.branch(c):
                return i
        return None

    # -- leaf queries
    def valid(self, phi) -> tuple:
        """Is phi implied by the current path condition?  -> (True, None) | (False, model)"""
        if phi is True:
            return True, None
        if phi is False:
            neg = z3.BoolVal(True)
        else:
            neg = z3.Not(phi)
        t = time.time()
        r = self.solver.check(neg)
        self.solver_s += time.time() - t
        self.checks += 1
        rs = str(r)
        if rs == "unsat":
            return True, None
        if rs == "sat":
            return False, self.solver.model()
        raise Unsupported("z3 unknown at leaf")

    def model(self):
        if not self._check():
            raise Infeasible()
        return self.solver.model()


_CTX = None


def ctx() -> Ctx:
    if _CTX is None:
        raise RuntimeError("no active BSTR context")
    return _CTX


def explore(fn, base_constraints=(), timeout_ms=5000, max_runs=2_000_000, first_prefix=None):
    """Run fn() under every feasible decision sequence.  Yields (ctx, result) at each leaf
    while the context is still positioned on that path (so leaf queries can be asked)."""
    global _CTX
    c = Ctx(base_constraints, timeout_ms)
    work = [list(first_prefix or [])]
    while work:
        prefix = work.pop()
        if c.runs >= max_runs:
            raise Unsupported("path budget exhausted")
        c.start(prefix)
        _CTX = c
        try:
            try:
                res = fn()
            except Infeasible:
                continue
            finally:
                work.extend(c.pending)
            c.leaves += 1
            yield c, res
        finally:
            _CTX = None
            c.stop()
    return


# --------------------------------------------------------------------------
# symbolic values
# --------------------------------------------------------------------------
class SymBool:
    __slots__ = ("cond",)

    def __init__(self, cond):
        self.cond = cond

    def __bool__(self):
        return ctx().branch(self.cond)

    def __invert__(self):
        return SymBool(b_not(self.cond))


def chars_of(x):
    if isinstance(x, SymStr):
        return x.c
    if isinstance(x, str):
        return [ord(ch) for ch in x]
    raise Unsupported(f"not a string: {type(x).__name__}")


def S(x):
    return x if isinstance(x, SymStr) else SymStr(chars_of(x))


def eq_chars(a, b):
    if len(a) != len(b):
        return False
    return b_and([c_eq(x, y) if not (_conc(x) and _conc(y)) else (x == y) for x, y in zip(a, b)])


class SymStr:
    """String of concrete length; chars are ints or z3 Int terms."""
    __slots__ = ("c",)

    def __init__(self, chars):
        self.c = list(chars)

    # -- basics
    def __len__(self):
        return len(self.c)

    def __bool__(self):
        return len(self.c) > 0

    def __hash__(self):
        if self.is_concrete():
            return hash(self.concrete())
        if ALLOW_ID_HASH:
            return id(self)   # opt-in: only sound for containers holding a single symbolic string
        raise Unsupported("hash of a symbolic string")

    def is_concrete(self):
        return all(_conc(x) for x in self.c)

    def concrete(self):
        if not self.is_concrete():
            raise Unsupported("symbolic string used where a concrete one is needed")
        return "".join(chr(x) for x in self.c)

    def __repr__(self):
        return "SymStr(" + "".join(chr(x) if _conc(x) else "?" for x in self.c) + ")"

    def __str__(self):
        # str(x) in the code under test must not lose symbolic content
        raise Unsupported("str() of SymStr (rewrite should have intercepted)")

    def __eq__(self, o):
        if isinstance(o, (str, SymStr)):
            r = eq_chars(self.c, chars_of(o))
            return r if isinstance(r, bool) else SymBool(r)
        return NotImplemented

    def __ne__(self, o):
        r = self.__eq__(o)
        if r is NotImplemented:
            return r
        return (not r) if isinstance(r, bool) else SymBool(b_not(r.cond))

    def __add__(self, o):
        return SymStr(self.c + chars_of(o))

    def __radd__(self, o):
        return SymStr(chars_of(o) + self.c)

    def __mul__(self, n):
        return SymStr(self.c * n)

    def __getitem__(self, k):
        if isinstance(k, slice):
            return SymStr(self.c[k])
        return SymStr([self.c[k]])

    def __iter__(self):
        return iter(SymStr([x]) for x in self.c)

    def __contains__(self, sub):
        return self.find(sub) >= 0

    def __format__(self, spec):
        raise Unsupported("format() of SymStr (rewrite should have intercepted)")

    # -- searching (concretise positions by forking)
    def _match_here(self, i, sub):
        if i + len(sub) > len(self.c):
            return False
        return b_and([c_eq(self.c[i + k], sub[k]) if not (_conc(self.c[i + k]) and _conc(sub[k]))
                      else self.c[i + k] == sub[k] for k in range(len(sub))])

    def find(self, sub, start=0):
        sub = chars_of(sub)
        for i in range(start, len(self.c) - len(sub) + 1):
            if ctx().branch(self._match_here(i, sub)):
                return i
        return -1

    def rfind(self, sub):
        sub = chars_of(sub)
        for i in range(len(self.c) - len(sub), -1, -1):
            if ctx().branch(self._match_here(i, sub)):
                return i
        return -1

    def index(self, sub):
        i = self.find(sub)
        if i < 0:
            raise ValueError("substring not found")
        return i

    def count(self, sub):
        sub = chars_of(sub)
        if not sub:
            raise Unsupported("count of empty")
        n = 0
        i = 0
        while i <= len(self.c) - len(sub):
            if ctx().branch(self._match_here(i, sub)):
                n += 1
                i += len(sub)
            else:
                i += 1
        return n

    def startswith(self, p):
        if isinstance(p, tuple):
            return any(self.startswith(x) for x in p)
        r = self._match_here(0, chars_of(p))
        return ctx().branch(r)

    def endswith(self, p):
        if isinstance(p, tuple):
            return any(self.endswith(x) for x in p)
        p = chars_of(p)
        if len(p) > len(self.c):
            return False
        return ctx().branch(self._match_here(len(self.c) - len(p), p))

    # -- stripping
    def _strip_pred(self, chars):
        if chars is None:
            return is_ws
        cs = chars_of(chars)
        if not all(_conc(x) for x in cs):
            raise Unsupported("strip with symbolic charset")
        return lambda c: b_or([c_eq(c, k) if not _conc(c) else c == k for k in cs])

    def rstrip(self, chars=None):
        p = self._strip_pred(chars)
        n = len(self.c)
        while n > 0 and ctx().branch(p(self.c[n - 1])):
            n -= 1
        return SymStr(self.c[:n])

    def lstrip(self, chars=None):
        p = self._strip_pred(chars)
        i = 0
        while i < len(self.c) and ctx().branch(p(self.c[i])):
            i += 1
        return SymStr(self.c[i:])

    def strip(self, chars=None):
        return self.lstrip(chars).rstrip(chars)

    # -- splitting / joining
    def split(self, sep=None, maxsplit=-1):
        if sep is None:
            out = []
            cur = []
            for ch in self.c:
                if ctx().branch(is_ws(ch)):
                    if cur:
                        out.append(SymStr(cur))
                        cur = []
                else:
                    cur.append(ch)
            if cur:
                out.append(SymStr(cur))
            return out
        sep = chars_of(sep)
        out = []
        i = 0
        last = 0
        while i <= len(self.c) - len(sep):
            if (maxsplit < 0 or len(out) < maxsplit) and ctx().branch(self._match_here(i, sep)):
                out.append(SymStr(self.c[last:i]))
                i += len(sep)
                last = i
            else:
                i += 1
        out.append(SymStr(self.c[last:]))
        return out

    def rsplit(self, sep=None, maxsplit=-1):
        if maxsplit < 0:
            return self.split(sep)
        raise Unsupported("rsplit with maxsplit")

    def splitlines(self):
        raise Unsupported("splitlines")

    def partition(self, sep):
        i = self.find(sep)
        if i < 0:
            return (self, SymStr([]), SymStr([]))
        n = len(chars_of(sep))
        return (SymStr(self.c[:i]), S(sep), SymStr(self.c[i + n:]))

    def rpartition(self, sep):
        i = self.rfind(sep)
        if i < 0:
            return (SymStr([]), SymStr([]), self)
        n = len(chars_of(sep))
        return (SymStr(self.c[:i]), S(sep), SymStr(self.c[i + n:]))

    def join(self, parts):
        out = []
        first = True
        for p in parts:
            if not first:
                out.extend(self.c)
            out.extend(chars_of(p))
            first = False
        return SymStr(out)

    def replace(self, old, new, count=-1):
        old = chars_of(old)
        new = chars_of(new)
        if not old:
            raise Unsupported("replace of empty string")
        out = []
        i = 0
        n = 0
        while i < len(self.c):
            if (count < 0 or n < count) and i + len(old) <= len(self.c) and \
                    ctx().branch(self._match_here(i, old)):
                out.extend(new)
                i += len(old)
                n += 1
            else:
                out.append(self.c[i])
                i += 1
        return SymStr(out)

    # -- case
    def lower(self):
        return SymStr([lower_c(x) for x in self.c])

    def upper(self):
        return SymStr([upper_c(x) for x in self.c])

    def capitalize(self):
        if not self.c:
            return self
        return SymStr([upper_c(self.c[0])] + [lower_c(x) for x in self.c[1:]])

    def title(self):
        raise Unsupported("title")

    def isidentifier(self):
        if not self.c:
            return False
        conds = [b_and([is_word(self.c[0]), b_not(is_digit(self.c[0]))])] + [is_word(x) for x in self.c[1:]]
        return ctx().branch(b_and(conds))

    def isspace(self):
        if not self.c:
            return False
        return ctx().branch(b_and([is_ws(x) for x in self.c]))

    def isdigit(self):
        if not self.c:
            return False
        return ctx().branch(b_and([is_digit(x) for x in self.c]))

    def isupper(self):
        raise Unsupported("isupper")

    def format(self, *args, **kw):
        return sym_format(self.concrete(), args, kw)

    def encode(self, *a):
        raise Unsupported("encode")


def sym_format(fmt: str, args, kw):
    """str.format with {} / {0} / {name} fields only (no conversions/specs)."""
    import string
    out = []
    auto = 0
    for lit, field, spec, conv in string.Formatter().parse(fmt):
        out.extend(ord(ch) for ch in lit)
        if field is None:
            continue
        if spec or conv:
            raise Unsupported("format spec/conversion")
        if field == "":
            v = args[auto]
            auto += 1
        elif field.isdigit():
            v = args[int(field)]
        else:
            if not field.isidentifier():
                raise Unsupported(f"format field {field!r}")
            v = kw[field]
        out.extend(chars_of(to_symstr(v)))
    return SymStr(out)


def to_symstr(v):
    if isinstance(v, SymStr):
        return v
    if isinstance(v, str):
        return S(v)
    if isinstance(v, (int, bool)) or v is None:
        return S(str(v))
    raise Unsupported(f"cannot render {type(v).__name__} symbolically")


def sym_fstring(*parts):
    out = []
    for p in parts:
        out.extend(chars_of(to_symstr(p)))
    return SymStr(out)


def sym_str(v):
    """replacement for the builtin str() in rewritten code"""
    return to_symstr(v)


class SymSet:
    """frozenset/set/list of concrete strings with symbolic-aware membership (one decision,
    not one per element)."""

    def __init__(self, elems):
        self.elems = sorted(set(elems))

    def __contains__(self, x):
        if isinstance(x, str):
            return x in self.elems
        if isinstance(x, SymStr):
            if x.is_concrete():
                return x.concrete() in self.elems
            cands = [e for e in self.elems if len(e) == len(x)]
            return ctx().branch(b_or([eq_chars(x.c, chars_of(e)) for e in cands]))
        return False

    def __iter__(self):
        return iter(self.elems)

    def __len__(self):
        return len(self.elems)


# --------------------------------------------------------------------------
# regex matching in CPython's backtracking order
# --------------------------------------------------------------------------
def _one(j, g, conds):
    yield (j, g, conds)


def match_at(items, s, i, groups, k):
    """Yield (end, groups, conds) for every way `items` followed by continuation k can match
    s from i, in CPython's priority order.  conds is a list of z3 Bool (concrete ones are
    already folded: a False kills the entry, True is dropped)."""
    if not items:
        yield from k(i, groups, [])
        return
    (op, av), rest = items[0], items[1:]
    n = len(s)

    def cont(j, g, conds):
        cs = []
        for c in conds:
            if c is False:
                return
            if c is True:
                continue
            cs.append(c)
        for (jj, gg, cc) in match_at(rest, s, j, g, k):
            yield (jj, gg, cs + cc)

    if op is sc.LITERAL:
        if i < n:
            yield from cont(i + 1, groups, [c_eq(s[i], av)])
    elif op is sc.NOT_LITERAL:
        if i < n:
            yield from cont(i + 1, groups, [b_not(c_eq(s[i], av))])
    elif op is sc.ANY:
        if i < n:
            yield from cont(i + 1, groups, [b_not(c_eq(s[i], 10))])
    elif op is sc.IN:
        if i < n:
            yield from cont(i + 1, groups, [cls_pred(av, s[i])])
    elif op is sc.SUBPATTERN:
        gid, add_flags, del_flags, sub = av
        if add_flags or del_flags:
            raise Unsupported("inline flags")

        def k2(j, g, conds, gid=gid, i=i):
            if gid is not None:
                g = dict(g)
                g[gid] = (i, j)
            yield (j, g, conds)
        for (j, g, conds) in match_at(list(sub), s, i, groups, k2):
            yield from cont(j, g, conds)
    elif op is sc.BRANCH:
        for alt in av[1]:
            for (j, g, conds) in match_at(list(alt), s, i, groups, _one):
                yield from cont(j, g, conds)
    elif op in (sc.MAX_REPEAT, sc.MIN_REPEAT):
        lo, hi, sub = av
        sub = list(sub)
        greedy = op is sc.MAX_REPEAT

        def rep(count, pos, g, conds):
            can_stop = count >= lo
            can_more = hi is sc.MAXREPEAT or count < hi

            def more():
                if not can_more:
                    return
                for (j, g2, c2) in match_at(sub, s, pos, g, _one):
                    if j == pos and count >= lo:
                        continue  # CPython refuses empty iterations once the minimum is met
                    if any(c is False for c in c2):
                        continue
                    yield from rep(count + 1, j, g2, conds + [c for c in c2 if c is not True])

            def stop():
                if can_stop:
                    yield from cont(pos, g, conds)
            if greedy:
                yield from more()
                yield from stop()
            else:
                yield from stop()
                yield from more()
        yield from rep(0, i, groups, [])
    elif op is sc.AT:
        if av is sc.AT_BEGINNING or av is sc.AT_BEGINNING_STRING:
            if i == 0:
                yield from cont(i, groups, [])
        elif av is sc.AT_END:
            if i == n:
                yield from cont(i, groups, [])
            elif i == n - 1:
                yield from cont(i, groups, [c_eq(s[i], 10)])
        elif av is sc.AT_END_STRING:
            if i == n:
                yield from cont(i, groups, [])
        elif av is sc.AT_BOUNDARY or av is sc.AT_NON_BOUNDARY:
            before = is_word(s[i - 1]) if i > 0 else False
            after = is_word(s[i]) if i < n else False
            if isinstance(before, bool) and isinstance(after, bool):
                at_b = before != after
            else:
                bz = z3.BoolVal(before) if isinstance(before, bool) else before
                az = z3.BoolVal(after) if isinstance(after, bool) else after
                at_b = z3.Xor(bz, az)
            yield from cont(i, groups, [at_b if av is sc.AT_BOUNDARY else b_not(at_b)])
        else:
            raise Unsupported(f"anchor {av}")
    elif op in (sc.ASSERT, sc.ASSERT_NOT):
        direction, sub = av
        if direction == 1:
            start = i
        else:
            lo_w, hi_w = sub.getwidth()
            if lo_w != hi_w:
                raise Unsupported("variable-width look-behind")
            start = i - lo_w
        alts = []
        if start >= 0:
            for (j, g, conds) in match_at(list(sub), s, start, groups, _one):
                if direction == -1 and j != i:
                    continue
                if any(c is False for c in conds):
                    continue
                alts.append(b_and([c for c in conds if c is not True]))
        any_match = b_or(alts)
        yield from cont(i, groups, [any_match if op is sc.ASSERT else b_not(any_match)])
    else:
        raise Unsupported(f"sre node {op}")


class SymMatch:
    def __init__(self, pat, s, start, end, groups):
        self.re = pat
        self.string = s
        self._start = start
        self._end = end
        self._g = groups

    def _idx(self, g):
        if isinstance(g, (str, SymStr)):
            name = g if isinstance(g, str) else g.concrete()
            return self.re.groupindex[name]
        return g

    def span(self, g=0):
        g = self._idx(g)
        if g == 0:
            return (self._start, self._end)
        return self._g.get(g, (-1, -1))

    def start(self, g=0):
        return self.span(g)[0]

    def end(self, g=0):
        return self.span(g)[1]

    def group(self, *gs):
        if not gs:
            gs = (0,)
        out = []
        for g in gs:
            a, b = self.span(g)
            out.append(None if a < 0 else SymStr(self.string.c[a:b]))
        return out[0] if len(out) == 1 else tuple(out)

    def __getitem__(self, g):
        return self.group(g)

    def groups(self, default=None):
        return tuple((self.group(i) if self.span(i)[0] >= 0 else default)
                     for i in range(1, self.re.groups + 1))

    def groupdict(self, default=None):
        return {name: (self.group(i) if self.span(i)[0] >= 0 else default)
                for name, i in self.re.groupindex.items()}


class SymPattern:
    def __init__(self, pattern, flags=0):
        if isinstance(pattern, SymStr):
            pattern = pattern.concrete()
        if isinstance(pattern, _re.Pattern):
            flags = pattern.flags & ~_re.UNICODE
            pattern = pattern.pattern
        if flags & ~(_re.UNICODE | _re.VERBOSE):
            raise Unsupported(f"regex flags {flags}")
        self.pattern = pattern
        self.tree = sp.parse(pattern, flags)
        self.items = list(self.tree)
        self.groupindex = dict(self.tree.state.groupdict)
        self.groups = self.tree.state.groups - 1
        self.flags = flags

    # first (CPython-selected) match starting exactly at `pos`
    def _match_from(self, s, pos, need_full=False, nonempty=False):
        c = ctx()
        chars = s.c
        for (j, g, conds) in match_at(self.items, chars, pos, {}, _one):
            if need_full and j != len(chars):
                continue
            if any(x is False for x in conds):
                continue
            cond = b_and([x for x in conds if x is not True])
            if c.branch(cond):
                return SymMatch(self, s, pos, j, g)
        return None

    def match(self, s, pos=0):
        return self._match_from(S(s), pos)

    def fullmatch(self, s):
        # CPython's fullmatch backtracks until the end is reached: keep only entries ending at n
        return self._match_from(S(s), 0, need_full=True)

    def search(self, s, pos=0):
        s = S(s)
        for p in range(pos, len(s) + 1):
            m = self._match_from(s, p)
            if m is not None:
                return m
        return None

    def finditer(self, s):
        s = S(s)
        p = 0
        n = len(s)
        out = []
        while p <= n:
            m = self._match_from(s, p)
            if m is None:
                p += 1
                continue
            if m._end == m._start:
                raise Unsupported("empty regex match in finditer/sub")
            out.append(m)
            p = m._end
        return iter(out)

    def findall(self, s):
        res = []
        for m in self.finditer(s):
            if self.groups == 0:
                res.append(m.group(0))
            elif self.groups == 1:
                res.append(m.group(1) if m.span(1)[0] >= 0 else S(""))
            else:
                res.append(tuple(x if x is not None else S("") for x in m.groups()))
        return res

    def sub(self, repl, s, count=0):
        s = S(s)
        if callable(repl):
            tmpl = None
        else:
            rs = repl.concrete() if isinstance(repl, SymStr) else repl
            tmpl = sp.parse_template(rs, _re.compile(self.pattern))
        out = []
        last = 0
        k = 0
        for m in self.finditer(s):
            if count and k >= count:
                break
            out.extend(s.c[last:m._start])
            if tmpl is None:
                out.extend(chars_of(to_symstr(repl(m))))
            else:
                out.extend(self._expand(tmpl, m))
            last = m._end
            k += 1
        out.extend(s.c[last:])
        return SymStr(out)

    @staticmethod
    def _expand(tmpl, m):
        out = []
        parts = tmpl
        if isinstance(tmpl, tuple) and len(tmpl) == 2 and isinstance(tmpl[0], list):
            # older (py<3.12) layout: (groups, literals)
            groups, literals = tmpl
            literals = list(literals)
            for idx, g in groups:
                literals[idx] = ("G", g)
            parts = [(p[1] if isinstance(p, tuple) else p) if not isinstance(p, tuple) else p for p in literals]
        for part in parts:
            if part is None:
                continue
            if isinstance(part, tuple):
                g = m.group(part[1])
                if g is not None:
                    out.extend(g.c)
            elif isinstance(part, int):
                g = m.group(part)
                if g is not None:
                    out.extend(g.c)
            else:
                out.extend(ord(ch) for ch in part)
        return out

    def split(self, s, maxsplit=0):
        s = S(s)
        out = []
        last = 0
        for m in self.finditer(s):
            out.append(SymStr(s.c[last:m._start]))
            for i in range(1, self.groups + 1):
                out.append(m.group(i))
            last = m._end
        out.append(SymStr(s.c[last:]))
        return out


def _compile(p, flags=0):
    return p if isinstance(p, SymPattern) else SymPattern(p, flags)


def _sub(pattern, repl, string, count=0, flags=0):
    return _compile(pattern, flags).sub(repl, string, count)


def _match(pattern, string, flags=0):
    return _compile(pattern, flags).match(string)


def _fullmatch(pattern, string, flags=0):
    return _compile(pattern, flags).fullmatch(string)


def _search(pattern, string, flags=0):
    return _compile(pattern, flags).search(string)


def _findall(pattern, string, flags=0):
    return _compile(pattern, flags).findall(string)


def _finditer(pattern, string, flags=0):
    return _compile(pattern, flags).finditer(string)


def _split(pattern, string, maxsplit=0, flags=0):
    return _compile(pattern, flags).split(string, maxsplit)


re_shim = types.SimpleNamespace(
    compile=_compile, sub=_sub, match=_match, fullmatch=_fullmatch, search=_search, findall=_findall,
    finditer=_finditer, split=_split, escape=_re.escape, Pattern=SymPattern, Match=SymMatch, error=_re.error,
    UNICODE=_re.UNICODE, VERBOSE=_re.VERBOSE,
)


# --------------------------------------------------------------------------
# loading real code for symbolic execution
# --------------------------------------------------------------------------
class _Rewrite(ast.NodeTransformer):
    """string constants -> SymStr, f-strings -> sym_fstring, str(x) -> sym_str(x)."""

    def visit_Constant(self, node):
        if isinstance(node.value, str):
            return ast.copy_location(
                ast.Call(func=ast.Name(id="__bstr_S", ctx=ast.Load()), args=[node], keywords=[]), node)
        return node

    def visit_JoinedStr(self, node):
        parts = []
        for v in node.values:
            if isinstance(v, ast.Constant):
                parts.append(v)
            elif isinstance(v, ast.FormattedValue):
                if v.conversion != -1 or v.format_spec is not None:
                    raise Unsupported("f-string conversion/spec")
                parts.append(self.visit(v.value))
            else:
                raise Unsupported("f-string part")
        return ast.copy_location(
            ast.Call(func=ast.Name(id="__bstr_f", ctx=ast.Load()), args=parts, keywords=[]), node)

    def visit_Call(self, node):
        self.generic_visit(node)
        if isinstance(node.func, ast.Name) and node.func.id == "str" and len(node.args) == 1:
            node.func = ast.Name(id="__bstr_str", ctx=ast.Load())
        return node

    def visit_FunctionDef(self, node):
        # drop annotations, decorators and the docstring (they would be rewritten uselessly)
        node.returns = None
        for a in node.args.args + node.args.kwonlyargs + node.args.posonlyargs:
            a.annotation = None
        node.decorator_list = []
        if node.body and isinstance(node.body[0], ast.Expr) and isinstance(node.body[0].value, ast.Constant) \
                and isinstance(node.body[0].value.value, str):
            node.body = node.body[1:] or [ast.Pass()]
        self.generic_visit(node)
        return node


def find_def(tree, qualname):
    cur = tree.body
    node = None
    for part in qualname.split("."):
        node = None
        for n in cur:
            if isinstance(n, (ast.FunctionDef, ast.ClassDef, ast.AsyncFunctionDef)) and n.name == part:
                node = n
                break
        if node is None:
            raise Unsupported(f"definition {qualname} not found")
        cur = node.body
    return node


def load_function(path, qualname, globs=None, source=None):
    """Compile the function `qualname` of file `path` (read NOW, from the working tree) for
    symbolic execution.  globs: names visible to it; plain frozensets/sets of str are wrapped
    in SymSet, `re` is replaced by the shim.  Returns (callable, source_text)."""
    text = source if source is not None else open(path).read()
    tree = ast.parse(text)
    node = find_def(tree, qualname)
    seg = ast.get_source_segment(text, node)
    node = _Rewrite().visit(node)
    mod = ast.Module(body=[node], type_ignores=[])
    ast.fix_missing_locations(mod)
    code = compile(mod, f"bstr:{path}:{qualname}", "exec")
    ns = {"__bstr_S": S, "__bstr_f": sym_fstring, "__bstr_str": sym_str, "re": re_shim,
          "len": len, "__builtins__": __builtins__}
    for k, v in (globs or {}).items():
        if isinstance(v, (frozenset, set)) and all(isinstance(e, str) for e in v):
            v = SymSet(v)
        elif isinstance(v, _re.Pattern):
            v = SymPattern(v)
        ns[k] = v
    ns["re"] = re_shim
    exec(code, ns)
    return ns[node.name], seg


# --------------------------------------------------------------------------
# helpers for harnesses
# --------------------------------------------------------------------------
def fresh_string(name, length):
    return SymStr([z3.Int(f"{name}_{i}") for i in range(length)])


def alphabet_constraints(s: SymStr, codes):
    codes = sorted(set(codes))
    cons = []
    for ch in s.c:
        if _conc(ch):
            continue
        cons.append(z3.Or(*[ch == k for k in codes]))
    return cons


def model_string(model, s) -> str:
    out = []
    for ch in chars_of(s):
        if _conc(ch):
            out.append(chr(ch))
        else:
            out.append(chr(model.eval(ch, model_completion=True).as_long()))
    return "".join(out)
