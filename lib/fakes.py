"""Pure-Python stand-ins for proto-plus messages, transports and api_core helpers, used when
emitted client code is executed symbolically by CrossHair.  Each stand-in implements only the
documented behaviour the templates rely on; every use is listed under `stubs` in evidence.

FakeMsg semantics (proto-plus contract the templates rely on):
  * construct from None / dict / another message of the same class (copy) / keyword args
  * `msg.field` of an unset scalar returns the type's falsy default; of an unset sub-message
    returns a live, auto-vivifying view (assignment through it sets the parent field)
  * `"field" in msg` is explicit presence
  * repeated fields are lists, map fields are dicts (created on first access)
  * equality is by class and set-field content
"""
from __future__ import annotations

import sys
import types


class FakeMsg:
    _kinds = {}        # field name -> kind: "str" | "int" | "bool" | "rep" | "map" | <FakeMsg subclass>
    _strict = True

    def __init__(self, mapping=None, **kw):
        object.__setattr__(self, "_set", {})
        object.__setattr__(self, "_parent", None)
        if mapping is not None:
            if isinstance(mapping, dict):
                for k, v in mapping.items():
                    setattr(self, k, v)
            elif isinstance(mapping, FakeMsg):
                for k, v in mapping._set.items():
                    self._set[k] = _copy(v)
            else:
                raise TypeError(f"cannot build {type(self).__name__} from {type(mapping).__name__}")
        for k, v in kw.items():
            setattr(self, k, v)

    # -- attribute protocol
    def _kind(self, name):
        k = self._kinds.get(name)
        if k is None and self._strict:
            raise AttributeError(f"{type(self).__name__} has no field {name!r}")
        return k or "str"

    def __setattr__(self, name, value):
        kind = self._kind(name)
        if value is None:
            # proto-plus / protobuf: None means "leave / make unset"
            self._set.pop(name, None)
            return
        if isinstance(kind, type) and isinstance(value, dict):
            value = kind(value)
        if kind == "rep" and value is not None:
            value = list(value)
        if kind == "map" and value is not None:
            value = dict(value)
        self._set[name] = value
        self._touch()

    def _touch(self):
        p = object.__getattribute__(self, "_parent")
        if p is not None:
            parent, fname = p
            if parent._set.get(fname) is not self:
                parent._set[fname] = self
                parent._touch()

    def __getattr__(self, name):
        if name.startswith("_"):
            raise AttributeError(name)
        st = object.__getattribute__(self, "_set")
        if name in st:
            return st[name]
        kind = self._kind(name)
        if kind == "str":
            return ""
        if kind == "int":
            return 0
        if kind == "bool":
            return False
        if kind == "rep":
            v = _TrackedList(self, name)
            return v
        if kind == "map":
            return _TrackedDict(self, name)
        if isinstance(kind, type):
            sub = kind()
            object.__setattr__(sub, "_parent", (self, name))
            return sub
        raise AttributeError(name)

    def __contains__(self, name):
        return name in self._set

    def __bool__(self):
        # proto-plus Message.__bool__: "any field is truthy" -- a message that only carries presence (an optional scalar
        # set to its default, an empty but present sub-message) is FALSY although it is not the default message
        return any(bool(v) for v in self._set.values())

    def __eq__(self, other):
        return type(other) is type(self) and _norm(self) == _norm(other)

    def __ne__(self, other):
        return not self.__eq__(other)

    def __hash__(self):
        return id(self)

    def __bool__(self):
        return True

    def __repr__(self):
        return f"{type(self).__name__}({_norm(self)!r})"

    def to_dict(self):
        return _norm(self)


class _TrackedList(list):
    def __init__(self, owner, name):
        super().__init__()
        self._o = (owner, name)

    def _attach(self):
        o, n = self._o
        if o._set.get(n) is not self:
            o._set[n] = self
            o._touch()

    def extend(self, it):
        super().extend(it)
        self._attach()

    def append(self, x):
        super().append(x)
        self._attach()


class _TrackedDict(dict):
    def __init__(self, owner, name):
        super().__init__()
        self._o = (owner, name)

    def _attach(self):
        o, n = self._o
        if o._set.get(n) is not self:
            o._set[n] = self
            o._touch()

    def update(self, *a, **k):
        super().update(*a, **k)
        self._attach()

    def __setitem__(self, k, v):
        super().__setitem__(k, v)
        self._attach()


def _copy(v):
    if isinstance(v, FakeMsg):
        return type(v)(v)
    if isinstance(v, list):
        return [_copy(x) for x in v]
    if isinstance(v, dict):
        return {k: _copy(x) for k, x in v.items()}
    return v


def _norm(v):
    if isinstance(v, FakeMsg):
        return {k: _norm(x) for k, x in sorted(v._set.items())}
    if isinstance(v, (list, tuple)):
        return [_norm(x) for x in v]
    if isinstance(v, dict):
        return {k: _norm(x) for k, x in v.items()}
    return v


def make_msg(name, kinds, strict=True):
    return type(name, (FakeMsg,), {"_kinds": dict(kinds), "_strict": strict})


def install_types_module(modname, classes):
    """Put a fake `...types.<proto>` module (and its parents) into sys.modules."""
    import importlib
    parts = modname.split(".")
    for i in range(1, len(parts) + 1):
        nm = ".".join(parts[:i])
        if nm not in sys.modules:
            try:  # real (namespace) packages such as `google` must stay real
                importlib.import_module(nm)
            except ImportError:
                pass
        if nm not in sys.modules:
            m = types.ModuleType(nm)
            m.__path__ = []
            sys.modules[nm] = m
        if i > 1:
            setattr(sys.modules[".".join(parts[:i - 1])], parts[i - 1], sys.modules[nm])
    mod = sys.modules[modname]
    for c in classes:
        setattr(mod, c.__name__, c)
    return mod


# ---------------------------------------------------------------------------
class Recorder:
    """Stands for one entry of transport._wrapped_methods: records every call."""

    def __init__(self, reply="REPLY", replies=None):
        self.calls = []
        self.reply = reply
        self.replies = list(replies) if replies is not None else None

    def __call__(self, request, retry=None, timeout=None, metadata=()):
        snap = request.to_dict() if isinstance(request, FakeMsg) else request
        self.calls.append({"request": snap, "request_obj": request, "retry": retry,
                           "timeout": timeout, "metadata": metadata})
        if self.replies is not None:
            return self.replies.pop(0) if self.replies else self.reply
        return self.reply


class AsyncRecorder(Recorder):
    def __call__(self, request, retry=None, timeout=None, metadata=()):
        val = Recorder.__call__(self, request, retry=retry, timeout=timeout, metadata=metadata)

        async def _coro():
            return val
        return _coro()


class FakeTransport:
    """transport.<rpc> is a key object; _wrapped_methods maps it to a Recorder."""

    def __init__(self, rpc_names, recorder_cls=Recorder, reply="REPLY"):
        self._wrapped_methods = {}
        self.recorders = {}
        self.kind = "grpc"
        self._host = "example.googleapis.com"
        for n in rpc_names:
            key = ("rpc-key", n)
            object.__setattr__(self, n, key)
            rec = recorder_cls(reply=reply)
            self._wrapped_methods[key] = rec
            self.recorders[n] = rec
        self.operations_client = "OPERATIONS_CLIENT"

    def total_calls(self):
        return sum(len(r.calls) for r in self.recorders.values())


class FakeClientSelf:
    def __init__(self, transport):
        self._transport = transport
        self._client = self  # async client delegates through self._client._transport
        self.validated = 0

    def _validate_universe_domain(self):
        self.validated += 1
        return True


def drive(coro):
    """Run a coroutine that never really suspends (all awaits resolve immediately)."""
    try:
        coro.send(None)
    except StopIteration as e:
        return e.value
    raise RuntimeError("coroutine suspended unexpectedly")


def drain_async_iter(ait):
    out = []
    it = ait.__aiter__()
    while True:
        try:
            out.append(drive(it.__anext__()))
        except StopAsyncIteration:
            return out
