r"""Engine RX: Python `re` parse tree -> z3 regular expressions / string constraints.

Two services:
  * lang(items)            language of an sre item list, groups erased
  * match_language(pat)    { s | re.match(pat, s) succeeds }  (Python anchoring semantics)
  * Parse(pat, s, tag)     existential parse: constraints saying "s is matched by pat
                           (re.match) with named groups bound to fresh z3 strings".
                           It over-approximates the backtracking engine by the set of ALL
                           admissible parses: `unsat` of "some parse has groups != v" implies
                           the property for whichever parse CPython selects.

Modelled Python specifics: `.` excludes only "\n"; a final `$` matches at the end or
before one final "\n"; `re.match` anchors on the left only; negated classes include
"\n"; \d \w \s are modelled for ASCII only (callers must restrict the input alphabet
to ASCII when `uses_categories(pattern)`).

Unsupported nodes raise Unsupported -> the check exits 2 (inconclusive).
"""
from __future__ import annotations

import re
import re._constants as sc
import re._parser as sp
import time

import z3

SS = z3.StringSort()
RS = z3.ReSort(SS)
ANYC = z3.AllChar(RS)
NL = z3.Re("\n")
DOT = z3.Diff(ANYC, NL)
EMPTY = z3.Re("")
SIGMA_STAR = z3.Star(ANYC)


class Unsupported(Exception):
    pass


def union(parts):
    parts = list(parts)
    if not parts:
        return z3.Empty(RS)
    return parts[0] if len(parts) == 1 else z3.Union(*parts)


def concat(parts):
    parts = list(parts)
    if not parts:
        return EMPTY
    return parts[0] if len(parts) == 1 else z3.Concat(*parts)


def cat_to_re(av):
    if av is sc.CATEGORY_DIGIT:
        return z3.Range("0", "9")
    if av is sc.CATEGORY_SPACE:
        return union(z3.Re(c) for c in " \t\n\r\x0b\x0c")
    if av is sc.CATEGORY_WORD:
        return union([z3.Range("a", "z"), z3.Range("A", "Z"), z3.Range("0", "9"), z3.Re("_")])
    if av is sc.CATEGORY_NOT_DIGIT:
        return z3.Diff(ANYC, cat_to_re(sc.CATEGORY_DIGIT))
    if av is sc.CATEGORY_NOT_SPACE:
        return z3.Diff(ANYC, cat_to_re(sc.CATEGORY_SPACE))
    if av is sc.CATEGORY_NOT_WORD:
        return z3.Diff(ANYC, cat_to_re(sc.CATEGORY_WORD))
    raise Unsupported(f"category {av}")


def cls_to_re(items):
    neg = False
    parts = []
    for op, av in items:
        if op is sc.NEGATE:
            neg = True
        elif op is sc.LITERAL:
            parts.append(z3.Re(chr(av)))
        elif op is sc.RANGE:
            parts.append(z3.Range(chr(av[0]), chr(av[1])))
        elif op is sc.CATEGORY:
            parts.append(cat_to_re(av))
        else:
            raise Unsupported(f"class item {op}")
    r = union(parts)
    return z3.Diff(ANYC, r) if neg else r


def lang(items):
    """Language of an sre item sequence; groups erased; anchors not allowed here."""
    parts = []
    lit = ""

    def flush():
        nonlocal lit
        if lit:
            parts.append(z3.Re(lit))
            lit = ""

    for op, av in items:
        if op is sc.LITERAL:
            lit += chr(av)
            continue
        flush()
        if op is sc.ANY:
            parts.append(DOT)
        elif op is sc.IN:
            parts.append(cls_to_re(av))
        elif op is sc.NOT_LITERAL:
            parts.append(z3.Diff(ANYC, z3.Re(chr(av))))
        elif op in (sc.MAX_REPEAT, sc.MIN_REPEAT):
            lo, hi, sub = av
            r = lang(list(sub))
            if hi is sc.MAXREPEAT:
                if lo == 0:
                    parts.append(z3.Star(r))
                elif lo == 1:
                    parts.append(z3.Plus(r))
                else:
                    parts.append(z3.Concat(*([r] * lo + [z3.Star(r)])))
            elif (lo, hi) == (0, 1):
                parts.append(z3.Option(r))
            else:
                parts.append(z3.Loop(r, lo, hi))
        elif op is sc.SUBPATTERN:
            parts.append(lang(list(av[3])))
        elif op is sc.BRANCH:
            parts.append(union(lang(list(b)) for b in av[1]))
        else:
            raise Unsupported(f"sre node {op} {av}")
    flush()
    return concat(parts)


def _strip_anchors(pattern):
    """-> (items without a leading ^ / trailing $, had_begin, had_end, tree)"""
    tree = sp.parse(pattern)
    items = list(tree)
    had_begin = bool(items) and items[0] == (sc.AT, sc.AT_BEGINNING)
    if had_begin:
        items = items[1:]
    had_end = bool(items) and items[-1] == (sc.AT, sc.AT_END)
    if had_end:
        items = items[:-1]
    for op, av in items:
        if op is sc.AT:
            raise Unsupported("anchor in the middle of a pattern")
    return items, had_begin, had_end, tree


def uses_categories(pattern) -> bool:
    def walk(items):
        for op, av in items:
            if op is sc.IN:
                if any(o is sc.CATEGORY for o, _ in av):
                    return True
            elif op in (sc.MAX_REPEAT, sc.MIN_REPEAT):
                if walk(list(av[2])):
                    return True
            elif op is sc.SUBPATTERN:
                if walk(list(av[3])):
                    return True
            elif op is sc.BRANCH:
                if any(walk(list(b)) for b in av[1]):
                    return True
        return False
    return walk(list(sp.parse(pattern)))


def match_language(pattern: str, fullmatch=False):
    """{ s | re.match(pattern, s) is not None } as a z3 regex."""
    items, _b, had_end, _ = _strip_anchors(pattern)
    body = lang(items)
    if fullmatch:
        return body
    if had_end:
        return z3.Concat(body, z3.Option(NL))
    return z3.Concat(body, SIGMA_STAR)


class Parse:
    """Existential parse of `s` by `pattern` under re.match semantics.

    self.cons    list of z3 constraints
    self.groups  name (or index) -> z3 string term
    A group under a repeat or alternation is unsupported.
    """

    def __init__(self, pattern: str, s, tag: str):
        self.cons = []
        self.groups = {}
        self._n = 0
        self.tag = tag
        items, _b, had_end, tree = _strip_anchors(pattern)
        self.names = {v: k for k, v in tree.state.groupdict.items()}
        if had_end:
            core = self._fresh("core")
            self.cons.append(z3.Or(s == core, s == z3.Concat(core, z3.StringVal("\n"))))
            self.cons.append(core == self._seq(items))
        else:
            rest = self._fresh("rest")
            self.cons.append(s == z3.Concat(self._seq(items), rest))

    def _fresh(self, hint):
        self._n += 1
        return z3.String(f"{hint}_{self.tag}_{self._n}")

    @staticmethod
    def _has_group(items):
        for op, av in items:
            if op is sc.SUBPATTERN:
                if av[0] is not None or Parse._has_group(list(av[3])):
                    return True
            elif op in (sc.MAX_REPEAT, sc.MIN_REPEAT):
                if Parse._has_group(list(av[2])):
                    return True
            elif op is sc.BRANCH:
                if any(Parse._has_group(list(b)) for b in av[1]):
                    return True
        return False

    def _seq(self, items):
        """returns a z3 string term equal to the text matched by `items`."""
        terms = []
        cur = []

        def flush():
            nonlocal cur
            if not cur:
                return
            if all(op is sc.LITERAL for op, _ in cur):
                terms.append(z3.StringVal("".join(chr(av) for _, av in cur)))
            else:
                v = self._fresh("p")
                self.cons.append(z3.InRe(v, lang(cur)))
                terms.append(v)
            cur = []

        for it in items:
            op, av = it
            if op is sc.SUBPATTERN and (av[0] is not None or self._has_group(list(av[3]))):
                flush()
                inner = self._seq(list(av[3]))
                if av[0] is not None:
                    g = self._fresh("g")
                    self.cons.append(g == inner)
                    self.groups[self.names.get(av[0], av[0])] = g
                    terms.append(g)
                else:
                    terms.append(inner)
            elif op in (sc.MAX_REPEAT, sc.MIN_REPEAT, sc.BRANCH) and self._has_group([it]):
                raise Unsupported("capture group under repeat/alternation")
            else:
                cur.append(it)
        flush()
        if not terms:
            return z3.StringVal("")
        return terms[0] if len(terms) == 1 else z3.Concat(*terms)


class Solver:
    """Thin wrapper: timeout, timing, `unknown` -> Inconclusive upstream."""

    def __init__(self, timeout_s=60):
        self.timeout_s = timeout_s
        self.seconds = 0.0
        self.queries = 0

    def check(self, *cons):
        s = z3.Solver()
        s.set("timeout", int(self.timeout_s * 1000))
        s.add(*cons)
        t = time.time()
        r = s.check()
        self.seconds += time.time() - t
        self.queries += 1
        rs = str(r)
        return rs, (s.model() if rs == "sat" else None)


def zstr(model, term) -> str:
    v = model.eval(term, model_completion=True)
    return v.as_string() if hasattr(v, "as_string") else str(v)


def py_string(model, term) -> str:
    """z3 string value -> Python str (decode \\u{..} escapes)."""
    raw = zstr(model, term)
    return re.sub(r"\\u\{([0-9a-fA-F]+)\}", lambda m: chr(int(m.group(1), 16)), raw)


def validate_translation(pattern: str, samples, mode="match"):
    """Serval-style: concrete strings through CPython's re and through the encoding.
    Returns list of disagreements."""
    L = match_language(pattern)
    bad = []
    for s in samples:
        real = re.match(pattern, s) is not None
        enc = z3.simplify(z3.InRe(z3.StringVal(s), L))
        if z3.is_true(enc) != real:
            if not (z3.is_true(enc) or z3.is_false(enc)):
                sol = z3.Solver()
                sol.add(z3.InRe(z3.StringVal(s), L))
                enc_b = str(sol.check()) == "sat"
            else:
                enc_b = z3.is_true(enc)
            if enc_b != real:
                bad.append((pattern, s, real, enc_b))
    return bad


def split_at_group(pattern: str, name: str):
    """For a pattern whose named group `name` sits in the top-level sequence:
    -> (items_before, group_body_items, items_after, had_end_anchor)."""
    items, _b, had_end, tree = _strip_anchors(pattern)
    gid = tree.state.groupdict.get(name)
    if gid is None:
        raise Unsupported(f"group {name} not in pattern")
    for i, (op, av) in enumerate(items):
        if op is sc.SUBPATTERN and av[0] == gid:
            return items[:i], list(av[3]), items[i + 1:], had_end
    raise Unsupported(f"group {name} is not at the top level of the pattern")


def contribution_language(pattern: str, name: str):
    """{ s | re.match(pattern, s) succeeds with a NON-EMPTY group `name` } for a top-level group,
    as (z3 regex, (before, body, after) regexes).  Over-approximates the engine by all parses."""
    before, body, after, had_end = split_at_group(pattern, name)
    b, g, a = lang(before), z3.Intersect(lang(body), z3.Plus(ANYC)), lang(after)
    tail = z3.Option(NL) if had_end else SIGMA_STAR
    return z3.Concat(b, g, a, tail), (b, g, z3.Concat(a, tail))
