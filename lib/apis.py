"""API specifications (the enumerated "programs") shared by several checks."""
from __future__ import annotations

from lib import gen


def paging_api():
    fb = gen.FileBuilder("google/example/pg/v1/library.proto", "google.example.pg.v1")
    fb.message("Book", [("name", "string"), ("author", "string")])
    fb.message("ListBooksRequest", [("parent", "string"), ("page_size", "int32"), ("page_token", "string"),
                                    ("filter", "string")])
    fb.message("ListBooksResponse", [("books", "msg:Book", {"repeated": True}), ("next_page_token", "string"),
                                     ("total_size", "int32")])
    fb.message("ListNamesRequest", [("parent", "string"), ("max_results", "msg:google.protobuf.UInt32Value"),
                                    ("page_token", "string")])
    fb.message("ListNamesResponse", [("names", "string", {"repeated": True}), ("next_page_token", "string")])
    fb.message("ListEntriesRequest", [("parent", "string"), ("page_size", "int32"), ("page_token", "string")])
    fb.message("ListEntriesResponse", [("entries", "string", {"map": ("string", "msg:Book")}),
                                       ("next_page_token", "string"), ("total_size", "int32")])
    fb.message("ListTwoRequest", [("parent", "string"), ("page_size", "int64"), ("page_token", "string")])
    fb.message("ListTwoResponse", [("kind", "string"), ("firsts", "int32", {"repeated": True}),
                                   ("next_page_token", "string"), ("seconds", "msg:Book", {"repeated": True})])
    fb.message("NotPagedRequest", [("parent", "string"), ("page_size", "int32")])
    fb.message("NotPagedResponse", [("books", "msg:Book", {"repeated": True}), ("next_page_token", "string")])
    s = fb.service("Library")
    fb.method(s, "ListBooks", "ListBooksRequest", "ListBooksResponse", http=("get", "/v1/{parent=shelves/*}/books"),
              sigs=["parent"])
    fb.method(s, "ListNames", "ListNamesRequest", "ListNamesResponse", http=("get", "/v1/{parent=shelves/*}/names"))
    fb.method(s, "ListEntries", "ListEntriesRequest", "ListEntriesResponse",
              http=("get", "/v1/{parent=shelves/*}/entries"))
    fb.method(s, "ListTwo", "ListTwoRequest", "ListTwoResponse", http=("get", "/v1/{parent=shelves/*}/two"))
    fb.method(s, "NotPaged", "NotPagedRequest", "NotPagedResponse", http=("get", "/v1/{parent=shelves/*}/np"))
    return [fb]


def client_api():
    """One API exercising the client-method template branches (C03/C05/C06/C08/C18)."""
    fb = gen.FileBuilder("google/example/cl/v1/library.proto", "google.example.cl.v1")
    fb.enum("View", ["VIEW_UNSPECIFIED", "BASIC", "FULL"])
    fb.message("Shelf", [("name", "string"), ("theme", "string")])
    fb.message("Book", [("name", "string"), ("author", "string"), ("rating", "int32"),
                        ("shelf", "msg:Shelf"), ("class", "string")])
    fb.message("GetBookRequest", [("name", "string"), ("view", "enum:View")])
    # book_id is REQUIRED and comes last in the signature: flattened parameters keep the DECLARED order
    fb.message("CreateBookRequest", [("parent", "string"), ("book", "msg:Book"), ("book_id", "string", {"required": True}),
                                     ("request_id", "string", {"optional": True, "uuid4": True}),
                                     ("trace_id", "string", {"uuid4": True})])
    fb.message("UpdateBookRequest", [("book", "msg:Book"), ("update_mask", "msg:google.protobuf.FieldMask")])
    fb.message("DeleteBookRequest", [("name", "string"), ("force", "bool")])
    fb.message("TagBookRequest", [("name", "string"), ("tags", "string", {"repeated": True}),
                                  ("labels", "string", {"map": ("string", "string")}),
                                  ("class", "string"), ("from", "int32"), ("view", "enum:View")])
    fb.message("MoveBookRequest", [("book", "msg:Book"), ("other_shelf", "string")])
    fb.message("StreamBooksRequest", [("parent", "string")])
    fb.message("UploadRequest", [("chunk", "string")])
    fb.message("ImportRequest", [("source", "string")])
    fb.message("ListBooksRequest", [("parent", "string"), ("page_size", "int32"), ("page_token", "string")])
    fb.message("ListBooksResponse", [("books", "msg:Book", {"repeated": True}), ("next_page_token", "string")])
    fb.message("WriteBookRequest", [("name", "string")])
    fb.message("WriteMetadata", [("progress", "int32")])
    fb.message("RouteRequest", [("table_name", "string"), ("app_profile_id", "string"), ("book", "msg:Book")])
    fb.message("Empty", [("etag", "string"), ("revision", "int32")])     # NOT google.protobuf.Empty
    s = fb.service("Library")
    E = "google.protobuf.Empty"
    fb.method(s, "GetBook", "GetBookRequest", "Book", http=("get", "/v1/{name=shelves/*/books/*}"), sigs=["name"])
    fb.method(s, "CreateBook", "CreateBookRequest", "Book", http=("post", "/v1/{parent=shelves/*}/books", "book"),
              sigs=["parent,book,book_id", "parent,book"])
    fb.method(s, "UpdateBook", "UpdateBookRequest", "Book",
              http=("patch", "/v1/{book.name=shelves/*/books/*}", "book"), sigs=["book,update_mask"])
    fb.method(s, "DeleteBook", "DeleteBookRequest", E, http=("delete", "/v1/{name=shelves/*/books/*}"),
              sigs=["name"])
    fb.method(s, "TagBook", "TagBookRequest", "Book", http=("post", "/v1/{name=shelves/*/books/*}:tag", "*"),
              sigs=["name,tags,labels,class,from"])
    fb.method(s, "MoveBook", "MoveBookRequest", "Book", http=("post", "/v1/{book.name=shelves/*/books/*}:move", "*"),
              sigs=["book.name,other_shelf"])
    fb.method(s, "ClassifyBook", "MoveBookRequest", "Book", http=("post", "/v1/{book.name=shelves/*/books/*}:classify", "*"),
              sigs=["book.class,other_shelf"])
    # a flattened SCALAR parameter named like the module that holds the request type (library.proto -> `library`):
    # the types module has to be imported under an alias in that method, or the parameter shadows it
    fb.message("ShelveBookRequest", [("name", "string"), ("library", "string")])
    fb.method(s, "ShelveBook", "ShelveBookRequest", "Book", http=("post", "/v1/{name=shelves/*/books/*}:shelve", "*"),
              sigs=["name,library"])
    # dotted signature entries whose leaf is a REPEATED field; the request has a top-level field of the leaf's name too
    fb.message("Tagged", [("name", "string"), ("tags", "string", {"repeated": True})])
    fb.message("RetagBookRequest", [("book", "msg:Tagged"), ("tags", "string", {"repeated": True})])
    fb.method(s, "RetagBook", "RetagBookRequest", "Book", http=("post", "/v1/{book.name=shelves/*/books/*}:retag", "*"),
              sigs=["book.name,book.tags"])
    fb.method(s, "StreamBooks", "StreamBooksRequest", "Book", http=("get", "/v1/{parent=shelves/*}/books:stream"),
              sigs=["parent"], sstream=True)
    fb.method(s, "Upload", "UploadRequest", "Book", cstream=True)
    fb.method(s, "Chat", "UploadRequest", "Book", cstream=True, sstream=True)
    fb.method(s, "Import", "ImportRequest", "Book", http=("post", "/v1/books:import", "*"), sigs=["source"])
    fb.method(s, "CreateChannel", "ImportRequest", "Book", http=("post", "/v1/channels", "*"))
    fb.method(s, "NoSig", "GetBookRequest", "Book", http=("get", "/v1/{name=shelves/*}/nosig"))
    # requests from a dependency package
    fb.method(s, "Ping", E, "Book", http=("get", "/v1/ping"))
    fb.method(s, "TouchBook", "GetBookRequest", "Empty", http=("post", "/v1/{name=shelves/*/books/*}:touch", "*"))
    # no method_signature; a request can carry nothing but PRESENCE (optional scalar at its default, empty sub-message):
    # proto-plus calls such a message falsy, it still is the caller's request
    fb.message("ProbeRequest", [("depth", "int32", {"optional": True}), ("label", "string"), ("book", "msg:Book")])
    fb.method(s, "Probe", "ProbeRequest", "Book", http=("post", "/v1/probe", "*"))
    fb.method(s, "CheckOperation", "google.longrunning.GetOperationRequest", "Book",
              http=("get", "/v1/{name=operations/*}:check"), sigs=["name"])
    fb.method(s, "Mask", "google.protobuf.FieldMask", "Book", http=("post", "/v1/mask", "*"), sigs=["paths"])
    # paged + LRO wiring
    fb.method(s, "ListBooks", "ListBooksRequest", "ListBooksResponse", http=("get", "/v1/{parent=shelves/*}/books"),
              sigs=["parent"])
    fb.method(s, "WriteBook", "WriteBookRequest", "google.longrunning.Operation",
              http=("post", "/v1/{name=shelves/*/books/*}:write", "*"), sigs=["name"],
              lro=("Book", "WriteMetadata"))
    # explicit routing (AIP-4222)
    fb.method(s, "RouteSimple", "RouteRequest", "Book", http=("post", "/v1/{table_name=projects/*}:r1", "*"),
              routing=[("app_profile_id", None)])
    fb.method(s, "RouteRename", "RouteRequest", "Book", http=("post", "/v1/{table_name=projects/*}:r2", "*"),
              routing=[("app_profile_id", "{routing_id=**}")])
    fb.method(s, "RouteOverride", "RouteRequest", "Book", http=("post", "/v1/{table_name=projects/*}:r5", "*"),
              routing=[("table_name", "{routing_id=projects/*}/**"), ("app_profile_id", "{routing_id=**}")])
    fb.method(s, "RouteMulti", "RouteRequest", "Book", http=("post", "/v1/{table_name=projects/*}:r3", "*"),
              routing=[("table_name", "{routing_id=projects/*}/**"),
                       ("table_name", "{routing_id=projects/*/instances/*}/**"),
                       ("app_profile_id", "{profile=*}")])
    fb.method(s, "RouteNested", "RouteRequest", "Book", http=("post", "/v1/{table_name=projects/*}:r4", "*"),
              routing=[("book.name", "shelves/*/{book_id=books/*}"), ("table_name", "{table_name=regions/*/zones/*/**}"),
                       ("book.shelf.name", "{book_id=**}")])
    return [fb]


CLIENT_SERVICE_YAML = {
    "type": "google.api.Service",
    "config_version": 3,
    "name": "example.googleapis.com",
    "publishing": {
        "method_settings": [
            {"selector": "google.example.cl.v1.Library.CreateBook",
             "auto_populated_fields": ["request_id", "trace_id"]},
        ]
    },
}


def rest_api():
    """REST transcoding shapes (C04): verbs, body kinds, additional bindings, dotted variables, required fields."""
    fb = gen.FileBuilder("google/example/rs/v1/library.proto", "google.example.rs.v1")
    fb.enum("Kind", ["KIND_UNSPECIFIED", "HARD", "SOFT"])
    fb.message("Book", [("name", "string"), ("title", "string"), ("class", "string")])
    req_all = [("name", "string", {"required": True}), ("r_str", "string", {"required": True}),
               ("r_int", "int32", {"required": True}), ("r_i64", "int64", {"required": True}),
               ("r_bool", "bool", {"required": True}), ("r_float", "float", {"required": True}),
               ("r_double", "double", {"required": True}), ("r_bytes", "bytes", {"required": True}),
               ("r_enum", "enum:Kind", {"required": True}), ("r_u32", "uint32", {"required": True}),
               ("r_msg", "msg:Book", {"required": True}), ("r_rep", "string", {"required": True, "repeated": True}),
               ("opt", "string"), ("class", "string", {"required": True})]
    fb.message("GetRequest", req_all)
    fb.message("PutRequest", [("name", "string", {"required": True}), ("book", "msg:Book", {"required": True}),
                              ("r_str", "string", {"required": True}), ("mode", "int32")])
    fb.message("PostRequest", [("parent", "string", {"required": True}), ("book_id", "string", {"required": True}),
                               ("r_int", "int32", {"required": True}), ("extra", "string")])
    fb.message("PatchRequest", [("book", "msg:Book", {"required": True}), ("r_str", "string", {"required": True})])
    # `rev` is required AND proto3-optional (lives in a synthetic oneof): it still needs its typed default
    fb.message("DeleteRequest", [("name", "string", {"required": True}), ("etag", "string", {"required": True}),
                                 ("rev", "int64", {"required": True, "optional": True})])
    fb.message("TwoVarRequest", [("parent", "string", {"required": True}), ("chapter_id", "string", {"required": True}),
                                 ("view", "string", {"required": True})])
    fb.message("NoHttpRequest", [("name", "string")])
    s = fb.service("Library")
    E = "google.protobuf.Empty"
    fb.method(s, "GetThing", "GetRequest", "Book", http=("get", "/v1/{name=things/*}"))
    fb.method(s, "PutThing", "PutRequest", "Book", http=("put", "/v1/{name=things/*}", "book"),
              extra_http=[("put", "/v1/{name=shelves/*/things/*}", "*")])      # additional binding with its OWN body
    fb.method(s, "PostThing", "PostRequest", "Book", http=("post", "/v1/{parent=shelves/*}/things", "*"))
    fb.method(s, "PatchThing", "PatchRequest", "Book", http=("patch", "/v1/{book.name=things/*}", "book"))
    fb.method(s, "DeleteThing", "DeleteRequest", E, http=("delete", "/v1/{name=things/*}"),
              extra_http=[("delete", "/v1/{name=shelves/*/things/*}")])
    fb.method(s, "TwoVars", "TwoVarRequest", "Book",
              http=("get", "/v1/{parent=shelves/*/books/*}/chapters/{chapter_id}"))
    fb.method(s, "ReservedVar", "GetRequest", "Book", http=("get", "/v1/{class=things/*}"))
    fb.method(s, "NoHttp", "NoHttpRequest", "Book")
    # a DELETE binding that declares a body (permitted by google.api.http)
    fb.message("PurgeRequest", [("parent", "string", {"required": True}), ("filter", "string"), ("force", "bool")])
    fb.method(s, "PurgeThings", "PurgeRequest", E, http=("delete", "/v1/{parent=shelves/*}/things", "*"))
    # a request WITHOUT any required field: `$alt` (numeric enums) must not depend on there being one
    fb.message("ListRequest", [("filter", "string"), ("kind", "enum:Kind"), ("page", "int32")])
    fb.method(s, "ListThings", "ListRequest", "Book", http=("get", "/v1/things"))
    # request / response types from another package (raw protobuf, not proto-plus): the reply is parsed into the RESPONSE
    # type as it is, whatever the request type is
    fb.method(s, "GetHealth", "DeleteRequest", "google.rpc.Status", http=("get", "/v1/{name=things/*}:health"))
    fb.method(s, "Report", "google.rpc.Status", "Book", http=("post", "/v1/report", "*"))
    # server streaming over REST (the reply is a ResponseIterator of the item type)
    fb.method(s, "WatchThings", "DeleteRequest", "Book", http=("get", "/v1/{name=things/*}:watch"), sstream=True)
    return [fb]


def retry_api():
    fb = gen.FileBuilder("google/example/rt/v1/library.proto", "google.example.rt.v1")
    fb.message("Book", [("name", "string")])
    fb.message("Req", [("name", "string")])
    s = fb.service("Library")
    for m in ("GetBook", "GetBookCover", "DeleteBook", "ListShelves", "Import"):
        fb.method(s, m, "Req", "Book", http=("get", "/v1/{name=books/*}:" + m.lower()))
    # streaming RPCs named in a methodConfig entry keep its retry policy and timeout like any other RPC
    fb.method(s, "UploadBooks", "Req", "Book", cstream=True)
    fb.method(s, "ChatBooks", "Req", "Book", cstream=True, sstream=True)
    fb.method(s, "WatchBooks", "Req", "Book", http=("get", "/v1/{name=books/*}:watch"), sstream=True)
    s2 = fb.service("Other")
    fb.method(s2, "GetBook", "Req", "Book", http=("get", "/v1/{name=others/*}"))
    return [fb]


RETRY_CONFIGS = [
    {"methodConfig": [
        {"name": [{"service": "google.example.rt.v1.Library", "method": "GetBook"},
                  {"service": "google.example.rt.v1.Library", "method": "DeleteBook"}],
         "timeout": "7.5s",
         "retryPolicy": {"maxAttempts": 4, "initialBackoff": "0.25s", "maxBackoff": "32s", "backoffMultiplier": 1.3,
                         "retryableStatusCodes": ["UNAVAILABLE", "DEADLINE_EXCEEDED"]}},
        {"name": [{"service": "google.example.rt.v1.Library", "method": "GetBookCover"}], "timeout": "20s"},
        {"name": [{"service": "google.example.rt.v1.Library", "method": "Import"}],
         "retryPolicy": {"retryableStatusCodes": ["ABORTED"]}},
        {"name": [{"service": "google.example.rt.v1.Library"}], "timeout": "99s"},
        {"name": [{"service": "google.example.rt.v1.Library", "method": "ListShelves"}], "timeout": "5s",
         "retryPolicy": {"initialBackoff": "0.25s", "maxBackoff": "8s", "backoffMultiplier": 1,
                         "retryableStatusCodes": ["UNAVAILABLE"]}},
        {"name": [{"service": "google.example.rt.v1.Library", "method": "UploadBooks"},
                  {"service": "google.example.rt.v1.Library", "method": "ChatBooks"},
                  {"service": "google.example.rt.v1.Library", "method": "WatchBooks"}], "timeout": "11s",
         "retryPolicy": {"initialBackoff": "0.5s", "maxBackoff": "4s", "backoffMultiplier": 2,
                         "retryableStatusCodes": ["ABORTED", "UNAVAILABLE"]}},
    ]},
    {"methodConfig": [
        {"name": [{"service": "google.example.rt.v1.Other", "method": "GetBook"}], "timeout": "1500000000n",
         "retryPolicy": {"initialBackoff": "1s", "maxBackoff": "10s", "backoffMultiplier": 2,
                         "retryableStatusCodes": ["INTERNAL", "UNAVAILABLE", "ABORTED"]}},
        {"name": [{"service": "google.example.rt.v1.Library", "method": "GetBook"}], "timeout": "3s"},
        {"name": [{"service": "google.example.rt.v1.Library", "method": "GetBook"}], "timeout": "4s"},
    ]},
]


def lro_api():
    # the file is called operation.proto on purpose: its module collides with google.api_core.operation, so the
    # emitted client has to use the collision alias consistently (import, annotation, from_gapic call)
    idx = gen.FileBuilder("google/example/lr/v1/operation.proto", "google.example.lr.v1")
    idx.message("IndexReport", [("pages", "int32")])
    idx.message("IndexMetadata", [("progress", "int32")])
    fb = gen.FileBuilder("google/example/lr/v1/library.proto", "google.example.lr.v1")   # does NOT import operation.proto
    fb.message("Book", [("name", "string")])
    fb.message("WriteMetadata", [("progress", "int32")])
    fb.message("Req", [("name", "string")])
    s = fb.service("Library")
    OP = "google.longrunning.Operation"
    fb.method(s, "WriteBook", "Req", OP, http=("post", "/v1/{name=books/*}:write", "*"), lro=("Book", "WriteMetadata"))
    fb.method(s, "RebuildIndex", "Req", OP, http=("post", "/v1/{name=books/*}:index", "*"),
              lro=("IndexReport", "google.example.lr.v1.IndexMetadata"))
    fb.method(s, "CleanUp", "Req", OP, http=("post", "/v1/{name=books/*}:clean", "*"),
              lro=("google.protobuf.Empty", "WriteMetadata"))
    # same response type as WriteBook, different metadata type: the pair belongs to the METHOD
    fb.method(s, "ReindexBook", "Req", OP, http=("post", "/v1/{name=books/*}:reindex", "*"), lro=("Book", "IndexMetadata"))
    fb.method(s, "RawOp", "Req", OP, http=("post", "/v1/{name=books/*}:raw", "*"))
    fb.method(s, "GetBook", "Req", "Book", http=("get", "/v1/{name=books/*}"))
    return [idx, fb]


def samples_api():
    fb = gen.FileBuilder("google/example/sm/v1/library.proto", "google.example.sm.v1")
    fb.enum("Kind", ["KIND_UNSPECIFIED", "HARD"])
    fb.message("Binding", [("kind", "string", {"required": True}), ("glue", "enum:Kind", {"required": True})])
    fb.message("Cover", [("binding", "msg:Binding", {"required": True}), ("color", "string")])
    fb.message("Book", [("name", "string"), ("cover", "msg:Cover", {"required": True}), ("pages", "int32", {"required": True})])
    fb.message("CreateBookRequest", [("parent", "string", {"required": True}), ("book", "msg:Book", {"required": True})])
    fb.message("GetBookRequest", [("name", "string", {"required": True})])
    fb.message("ListBooksRequest", [("parent", "string", {"required": True}), ("page_size", "int32"), ("page_token", "string")])
    fb.message("ListBooksResponse", [("books", "msg:Book", {"repeated": True}), ("next_page_token", "string")])
    fb.message("Meta", [("p", "int32")])
    s = fb.service("Library")
    fb.method(s, "CreateBook", "CreateBookRequest", "Book", http=("post", "/v1/{parent=shelves/*}/books", "book"))
    fb.method(s, "GetBook", "GetBookRequest", "Book", http=("get", "/v1/{name=shelves/*/books/*}"))
    fb.method(s, "ListBooks", "ListBooksRequest", "ListBooksResponse", http=("get", "/v1/{parent=shelves/*}/books"))
    fb.method(s, "DeleteBook", "GetBookRequest", "google.protobuf.Empty", http=("delete", "/v1/{name=shelves/*/books/*}"))
    fb.method(s, "WriteBook", "GetBookRequest", "google.longrunning.Operation",
              http=("post", "/v1/{name=shelves/*/books/*}:write", "*"), lro=("Book", "Meta"))
    fb.method(s, "StreamBooks", "GetBookRequest", "Book", sstream=True)
    fb.method(s, "Chat", "GetBookRequest", "Book", cstream=True, sstream=True)
    # a flattened NESTED field: the client parameter is `name`, the signature key is `book.name`
    fb.message("RenameBookRequest", [("parent", "string", {"required": True}), ("book", "msg:Book")])
    fb.method(s, "RenameBook", "RenameBookRequest", "Book", http=("post", "/v1/{parent=shelves/*}/books:rename", "*"),
              sigs=["parent,book.name"])
    # a oneof whose SECOND member is required: the sample populates one member of the oneof, not two
    fb.message("DrawShapeRequest", [("parent", "string", {"required": True}), ("circle_label", "string", {"oneof": "kind"}),
                                    ("square_label", "string", {"oneof": "kind", "required": True})])
    fb.method(s, "DrawShape", "DrawShapeRequest", "Book", http=("post", "/v1/{parent=shelves/*}/shapes", "*"))
    # an RPC named by a Python keyword: the client method is `import_`, and the sample has to call that
    fb.method(s, "Import", "GetBookRequest", "Book", http=("post", "/v1/{name=shelves/*/books/*}:import", "*"))
    # a second service on a different host: region tags carry the owning service's host short name
    a = fb.service("Archive", host="libarchive.googleapis.com")
    fb.method(a, "GetRecord", "GetBookRequest", "Book", http=("get", "/v1/{name=records/*}"))
    return [fb]


def compute_api(scopes=("Global", "Region", "Zone")):
    """Compute-style extended operations: the Addresses service starts operations that are polled through one
    operation service per scope (C10: a SET of services reaches the transport templates; C16 uses a smaller variant)."""
    from google.api import client_pb2
    from lib.gen import ex_ops_pb2
    pkg = "google.example.cp.v1"
    fb = gen.FileBuilder("google/example/cp/v1/compute.proto", pkg)
    fb.enum("OpStatus", ["UNDEFINED_STATUS", "DONE"])
    op = fb.message("Operation", [("name", "string"), ("http_error_message", "string"), ("http_error_status_code", "int32"),
                                  ("status", "enum:OpStatus")])
    for f, role in zip(op.field, (ex_ops_pb2.NAME, ex_ops_pb2.ERROR_MESSAGE, ex_ops_pb2.ERROR_CODE, ex_ops_pb2.STATUS)):
        f.options.Extensions[ex_ops_pb2.operation_field] = role
    fb.message("Address", [("address", "string")])
    for scope in scopes:
        g = fb.message(f"Get{scope}OperationRequest", [("operation", "string", {"required": True}), ("project", "string", {"required": True})])
        g.field[0].options.Extensions[ex_ops_pb2.operation_response_field] = "name"
        fb.message(f"Insert{scope}AddressRequest", [("address_resource", "msg:Address"), ("project", "string")])
        svc = fb.service(f"{scope}Operations", "compute.googleapis.com")
        m = fb.method(svc, "Get", f"Get{scope}OperationRequest", "Operation",
                      http=("get", "/compute/v1/projects/{project}/%s/operations/{operation}" % scope.lower()), sigs=["project,operation"])
        m.options.Extensions[ex_ops_pb2.operation_polling_method] = True
    a = fb.service("Addresses", "compute.googleapis.com")
    for scope in scopes:
        m = fb.method(a, f"Insert{scope}", f"Insert{scope}AddressRequest", "Operation",
                      http=("post", "/compute/v1/projects/{project}/%s/addresses" % scope.lower(), "address_resource"),
                      sigs=["project,address_resource"])
        m.options.Extensions[ex_ops_pb2.operation_service] = f"{scope}Operations"
    return [fb]
