"""API specifications (the enumerated "programs") shared by several checks."""
from __future__ import annotations

from lib import gen


def paging_api():
    fb = gen.FileBuilder("google/example/pg/v1/library.proto", "google.example.pg.v1")
    fb.message("Book", [("name", "string"), ("author", "string")])
    fb.message("ListBooksRequest", [("parent", "string"), ("page_size", "int32"), ("page_token", "string"),
                                    ("filter", "string")])
    fb.message("ListBooksResponse", [("books", "msg:Book", {"repeated": True}), ("next_page_token", "string"),
                                     ("total_size", "int32")])
    fb.message("ListNamesRequest", [("parent", "string"), ("max_results", "msg:google.protobuf.UInt32Value"),
                                    ("page_token", "string")])
    fb.message("ListNamesResponse", [("names", "string", {"repeated": True}), ("next_page_token", "string")])
    fb.message("ListEntriesRequest", [("parent", "string"), ("page_size", "int32"), ("page_token", "string")])
    fb.message("ListEntriesResponse", [("entries", "string", {"map": ("string", "msg:Book")}),
                                       ("next_page_token", "string"), ("total_size", "int32")])
    fb.message("ListTwoRequest", [("parent", "string"), ("page_size", "int64"), ("page_token", "string")])
    fb.message("ListTwoResponse", [("kind", "string"), ("firsts", "int32", {"repeated": True}),
                                   ("next_page_token", "string"), ("seconds", "msg:Book", {"repeated": True})])
    fb.message("NotPagedRequest", [("parent", "string"), ("page_size", "int32")])
    fb.message("NotPagedResponse", [("books", "msg:Book", {"repeated": True}), ("next_page_token", "string")])
    s = fb.service("Library")
    fb.method(s, "ListBooks", "ListBooksRequest", "ListBooksResponse", http=("get", "/v1/{parent=shelves/*}/books"),
              sigs=["parent"])
    fb.method(s, "ListNames", "ListNamesRequest", "ListNamesResponse", http=("get", "/v1/{parent=shelves/*}/names"))
    fb.method(s, "ListEntries", "ListEntriesRequest", "ListEntriesResponse",
              http=("get", "/v1/{parent=shelves/*}/entries"))
    fb.method(s, "ListTwo", "ListTwoRequest", "ListTwoResponse", http=("get", "/v1/{parent=shelves/*}/two"))
    fb.method(s, "NotPaged", "NotPagedRequest", "NotPagedResponse", http=("get", "/v1/{parent=shelves/*}/np"))
    return [fb]
