"""Generator driver: build descriptor sets in-process (no protoc in the sandbox),
run the REAL generator of /repo's working tree, write the response to a scratch
tree outside /repo and /verif.

Everything here is concrete: it produces the "programs" that the solver-based
checks then analyse.
"""
from __future__ import annotations

import atexit
import json
import os
import shutil
import sys
import tempfile
import warnings

from google.protobuf import descriptor_pb2 as d
from google.protobuf.compiler import plugin_pb2
from google.api import (annotations_pb2, client_pb2, http_pb2, resource_pb2,
                        field_behavior_pb2, routing_pb2, field_info_pb2, launch_stage_pb2)
from google.protobuf import (empty_pb2, descriptor_pb2, duration_pb2, any_pb2, timestamp_pb2,
                             field_mask_pb2, struct_pb2, wrappers_pb2)
from google.longrunning import operations_pb2
from google.rpc import status_pb2
from google.cloud import extended_operations_pb2 as ex_ops_pb2

T = d.FieldDescriptorProto

DEP_MODS = [descriptor_pb2, any_pb2, duration_pb2, empty_pb2, timestamp_pb2, field_mask_pb2,
            struct_pb2, wrappers_pb2, status_pb2, launch_stage_pb2, http_pb2, annotations_pb2,
            client_pb2, resource_pb2, field_behavior_pb2, field_info_pb2, routing_pb2,
            operations_pb2, ex_ops_pb2]


def _fdp(mod):
    return d.FileDescriptorProto.FromString(mod.DESCRIPTOR.serialized_pb)


def dep_files():
    return [_fdp(m) for m in DEP_MODS]


_SCRATCH = []


def scratch_dir(prefix="gapicverif-"):
    p = tempfile.mkdtemp(prefix=prefix)
    _SCRATCH.append(p)
    return p


@atexit.register
def _cleanup():
    for p in _SCRATCH:
        shutil.rmtree(p, ignore_errors=True)


SCALARS = {
    "double": T.TYPE_DOUBLE, "float": T.TYPE_FLOAT, "int64": T.TYPE_INT64, "uint64": T.TYPE_UINT64,
    "int32": T.TYPE_INT32, "fixed64": T.TYPE_FIXED64, "fixed32": T.TYPE_FIXED32, "bool": T.TYPE_BOOL,
    "string": T.TYPE_STRING, "bytes": T.TYPE_BYTES, "uint32": T.TYPE_UINT32, "sfixed32": T.TYPE_SFIXED32,
    "sfixed64": T.TYPE_SFIXED64, "sint32": T.TYPE_SINT32, "sint64": T.TYPE_SINT64,
}


def camel(name):
    parts = name.split("_")
    return parts[0] + "".join(p[:1].upper() + p[1:] for p in parts[1:])


class FileBuilder:
    """Small DSL over FileDescriptorProto."""

    def __init__(self, name, package, deps=None):
        self.f = d.FileDescriptorProto(name=name, package=package, syntax="proto3")
        self.f.dependency.extend([m.DESCRIPTOR.name for m in DEP_MODS])
        for dep in deps or []:
            self.f.dependency.append(dep)
        self.package = package

    def _qual(self, tn):
        if tn.startswith("."):
            return tn
        if "." in tn and tn.split(".")[0] in ("google",):
            return "." + tn
        return f".{self.package}.{tn}"

    def message(self, name, fields=(), resource=None, parent=None, comment=None):
        """fields: tuples (name, type[, opts dict]); type is scalar name, 'msg:Type', 'enum:Type';
        opts: repeated, optional, required, uuid4, ref (resource type), child_ref, oneof, map=(k,v)"""
        cont = parent.nested_type if parent is not None else self.f.message_type
        m = cont.add(name=name)
        num = 0
        for spec in fields:
            fname, ftype = spec[0], spec[1]
            o = spec[2] if len(spec) > 2 else {}
            num += 1
            fld = m.field.add(name=fname, number=o.get("number", num), json_name=camel(fname))
            fld.label = T.LABEL_REPEATED if o.get("repeated") else T.LABEL_OPTIONAL
            if o.get("map"):
                kt, vt = o["map"]
                ename = "".join(p.capitalize() for p in fname.split("_")) + "Entry"
                e = m.nested_type.add(name=ename)
                e.options.map_entry = True
                kf = e.field.add(name="key", number=1, json_name="key", label=1)
                kf.type = SCALARS[kt]
                vf = e.field.add(name="value", number=2, json_name="value", label=1)
                self._set_type(vf, vt)
                fld.label = T.LABEL_REPEATED
                fld.type = T.TYPE_MESSAGE
                prefix = self._scope_of(m, parent)
                fld.type_name = f"{prefix}.{ename}"
            else:
                self._set_type(fld, ftype)
            if o.get("optional"):
                fld.proto3_optional = True
                oo = m.oneof_decl.add(name="_" + fname)
                fld.oneof_index = len(m.oneof_decl) - 1
            if o.get("oneof"):
                names = [x.name for x in m.oneof_decl]
                if o["oneof"] not in names:
                    m.oneof_decl.add(name=o["oneof"])
                    names.append(o["oneof"])
                fld.oneof_index = names.index(o["oneof"])
            if o.get("required"):
                fld.options.Extensions[field_behavior_pb2.field_behavior].append(field_behavior_pb2.REQUIRED)
            if o.get("uuid4"):
                fld.options.Extensions[field_info_pb2.field_info].format = field_info_pb2.FieldInfo.UUID4
            if o.get("ref"):
                fld.options.Extensions[resource_pb2.resource_reference].type = o["ref"]
            if o.get("child_ref"):
                fld.options.Extensions[resource_pb2.resource_reference].child_type = o["child_ref"]
        if resource:
            rtype, patterns = resource
            m.options.Extensions[resource_pb2.resource].type = rtype
            m.options.Extensions[resource_pb2.resource].pattern.extend(patterns)
        if comment is not None:
            self._comment([4, len(self.f.message_type) - 1], comment)
        return m

    def _scope_of(self, m, parent):
        # only one nesting level is used by the grammars
        if parent is None:
            return f".{self.package}.{m.name}"
        return f".{self.package}.{parent.name}.{m.name}"

    def _set_type(self, fld, ftype):
        if ftype in SCALARS:
            fld.type = SCALARS[ftype]
        elif ftype.startswith("msg:"):
            fld.type = T.TYPE_MESSAGE
            fld.type_name = self._qual(ftype[4:])
        elif ftype.startswith("enum:"):
            fld.type = T.TYPE_ENUM
            fld.type_name = self._qual(ftype[5:])
        else:
            raise ValueError(ftype)

    def enum(self, name, values, parent=None):
        cont = parent.enum_type if parent is not None else self.f.enum_type
        e = cont.add(name=name)
        for i, v in enumerate(values):
            e.value.add(name=v, number=i)
        return e

    def file_resource(self, rtype, patterns):
        r = self.f.options.Extensions[resource_pb2.resource_definition].add()
        r.type = rtype
        r.pattern.extend(patterns)

    def service(self, name, host="example.googleapis.com", scopes=None, version=None):
        s = self.f.service.add(name=name)
        s.options.Extensions[client_pb2.default_host] = host
        if scopes:
            s.options.Extensions[client_pb2.oauth_scopes] = scopes
        if version:
            s.options.Extensions[client_pb2.api_version] = version
        return s

    def method(self, svc, name, inp, out, http=None, sigs=(), routing=None, lro=None,
               cstream=False, sstream=False, extra_http=(), comment=None):
        """http: (verb, uri[, body]); extra_http: additional bindings; routing: [(field, template)];
        lro: (response_type, metadata_type)"""
        m = svc.method.add(name=name, input_type=self._qual(inp), output_type=self._qual(out))
        m.client_streaming = cstream
        m.server_streaming = sstream
        if http:
            rule = m.options.Extensions[annotations_pb2.http]
            self._rule(rule, http)
            for eh in extra_http:
                self._rule(rule.additional_bindings.add(), eh)
        for s in sigs:
            m.options.Extensions[client_pb2.method_signature].append(s)
        if routing is not None:
            rr = m.options.Extensions[routing_pb2.routing]
            for fld, tmpl in routing:
                rp = rr.routing_parameters.add(field=fld)
                if tmpl is not None:
                    rp.path_template = tmpl
        if lro:
            oi = m.options.Extensions[operations_pb2.operation_info]
            oi.response_type, oi.metadata_type = lro
        if comment is not None:
            si = list(self.f.service).index(svc)
            self._comment([6, si, 2, len(svc.method) - 1], comment)
        return m

    @staticmethod
    def _rule(rule, http):
        verb, uri = http[0], http[1]
        setattr(rule, verb, uri)
        if len(http) > 2 and http[2] is not None:
            rule.body = http[2]

    def _comment(self, path, text):
        loc = self.f.source_code_info.location.add()
        loc.path.extend(path)
        loc.leading_comments = text


class Generated:
    def __init__(self, response, outdir, api, opts, request):
        self.response = response
        self.outdir = outdir
        self.api = api
        self.opts = opts
        self.request = request
        self.files = {f.name: f.content for f in response.file}

    def find(self, suffix):
        hits = [n for n in self.files if n.endswith(suffix)]
        if len(hits) != 1:
            raise KeyError(f"{suffix}: {hits}")
        return hits[0]

    def text(self, suffix):
        return self.files[self.find(suffix)]

    def path(self, suffix):
        return os.path.join(self.outdir, self.find(suffix))


def build_request(files, to_generate=None, parameter="transport=grpc+rest"):
    req = plugin_pb2.CodeGeneratorRequest()
    req.proto_file.extend(dep_files() + [fb.f if isinstance(fb, FileBuilder) else fb for fb in files])
    names = [fb.f.name if isinstance(fb, FileBuilder) else fb.name for fb in files]
    req.file_to_generate.extend(to_generate if to_generate is not None else names)
    req.parameter = parameter
    return req


PANDOC_STUB_NOTE = ("pypandoc.convert_text replaced by the identity while rendering (no pandoc binary in the "
                    "sandbox): only docstring text of comments containing RST/markdown mark-up is affected")


class _no_pandoc:
    """There is no pandoc binary: comments with mark-up characters keep their text unchanged."""

    def __enter__(self):
        import pypandoc
        self._old = pypandoc.convert_text
        pypandoc.convert_text = lambda text, to=None, format=None, extra_args=(), **kw: text
        return self

    def __exit__(self, *a):
        import pypandoc
        pypandoc.convert_text = self._old


def generate(files, parameter="transport=grpc+rest", to_generate=None, service_yaml=None,
             retry_config=None, write=True, quiet=True):
    """Run the real gapic pipeline of the current /repo tree in-process."""
    from gapic.schema import api as api_mod
    from gapic.generator import generator
    from gapic.utils import Options

    out = scratch_dir()
    param = parameter
    if service_yaml is not None:
        import yaml
        p = os.path.join(out, "_service.yaml")
        with open(p, "w") as f:
            yaml.safe_dump(service_yaml, f)
        param += f",service-yaml={p}"
    if retry_config is not None:
        p = os.path.join(out, "_retry.json")
        with open(p, "w") as f:
            json.dump(retry_config, f)
        param += f",retry-config={p}"
    req = build_request(files, to_generate, param)
    with warnings.catch_warnings(), _no_pandoc():
        if quiet:
            warnings.simplefilter("ignore")
        opts = Options.build(req.parameter)
        package = os.path.commonprefix(
            [p.package for p in req.proto_file if p.name in req.file_to_generate]).rstrip(".")
        api = api_mod.API.build(req.proto_file, opts=opts, package=package)
        res = generator.Generator(opts).get_response(api, opts)
    if write:
        for fl in res.file:
            p = os.path.join(out, fl.name)
            os.makedirs(os.path.dirname(p), exist_ok=True)
            with open(p, "w") as f:
                f.write(fl.content)
    return Generated(res, out, api, opts, req)


def build_api(files, parameter="transport=grpc+rest", to_generate=None):
    from gapic.schema import api as api_mod
    from gapic.utils import Options
    req = build_request(files, to_generate, parameter)
    with warnings.catch_warnings():
        warnings.simplefilter("ignore")
        opts = Options.build(req.parameter)
        package = os.path.commonprefix(
            [p.package for p in req.proto_file if p.name in req.file_to_generate]).rstrip(".")
        return api_mod.API.build(req.proto_file, opts=opts, package=package), opts
