"""Common plumbing for every check: verdict discipline, evidence, replay files.

Exit codes (DESIGN.md section 2):
  0  every obligation discharged within the stated bounds (plus KNOWN-FINDING lines)
  1  a solver counterexample that reproduced against the real code
     (prints `VIOLATION property=<id> replay=<path>`)
  2  inconclusive: solver unknown/timeout, unsupported code shape, vacuity guard
     failed, counterexample that does not replay (encoding wrong, not the code)
"""
from __future__ import annotations

import argparse
import hashlib
import json
import os
import sys
import time
import traceback

VERIF = os.path.dirname(os.path.dirname(os.path.abspath(__file__)))
REPO = os.environ.get("VERIF_REPO", "/repo")
EVIDENCE_DIR = os.environ.get("VERIF_EVIDENCE_DIR", os.path.join(VERIF, "evidence"))
REPLAY_DIR = os.path.join(VERIF, "replays")
KNOWN_FILE = os.path.join(VERIF, "known_findings.txt")
GUARD = "GOOGLEAPIS_GAPIC_GENERATOR_PYTHON_VERIF"


class Inconclusive(Exception):
    """Raised anywhere to abort with exit code 2."""


def load_known():
    """known_findings.txt: lines `known: property=<id> key=<key> <text>` and
    `fixed: property=<id> <commit> <text>`.  Only `known:` lines suppress."""
    known = {}
    if os.path.exists(KNOWN_FILE):
        for line in open(KNOWN_FILE):
            line = line.strip()
            if not line.startswith("known:"):
                continue
            parts = line[len("known:"):].split()
            d = dict(p.split("=", 1) for p in parts[:2] if "=" in p)
            if "property" in d and "key" in d:
                known.setdefault(d["property"], {})[d["key"]] = " ".join(parts[2:])
    return known


def sha(text: str) -> str:
    return hashlib.sha256(text.encode()).hexdigest()[:12]


class Check:
    def __init__(self, pid: str, description: str, level: str = "model_checking"):
        self.pid = pid
        self.description = description
        self.level = level
        ap = argparse.ArgumentParser(description=description)
        ap.add_argument("--tier", default=os.environ.get("VERIF_TIER", "quick"),
                        choices=["quick", "thorough"])
        ap.add_argument("--replay", default=None)
        ap.add_argument("--jobs", type=int, default=int(os.environ.get("VERIF_JOBS", "16")))
        ap.add_argument("--only", default=None, help="comma list of sub-checks to run (debug)")
        self.args = ap.parse_args()
        self.tier = self.args.tier
        self.jobs = self.args.jobs
        try:
            self.seed = int(os.environ.get("VERIF_SEED", "0"))
        except ValueError:
            self.seed = 0
        self.t0 = time.time()
        self.obligations = 0
        self.discharged = 0
        self.evaluations = 0
        self.distinct = set()
        self.samples = []
        self.violations = []       # (key, text, replay_path)
        self.known_hits = []
        self.inconclusive = []
        self.solver_s = 0.0
        self.functions = []        # encoded functions: {"where":..., "sha":...}
        self.bounds = {}
        self.outside = []
        self.assumptions = []
        self.stubs = []
        self.canaries = []
        self.twins = []
        self.engines = set()
        self.programs = 0
        self.extra = {}
        self.known = load_known().get(pid, {})
        self.sections = {}

    # ---- bookkeeping -----------------------------------------------------
    def only(self, name: str) -> bool:
        return self.args.only is None or name in self.args.only.split(",")

    def encoded(self, where: str, source_text: str):
        self.functions.append({"where": where, "sha256_12": sha(source_text)})

    def bound(self, k, v):
        self.bounds[k] = v

    def sample(self, s, limit=12):
        if len(self.samples) < limit:
            self.samples.append(s)

    def ok(self, kind: str, key, seconds: float = 0.0, n: int = 1):
        """Record `n` discharged obligations of a kind; key identifies the distinct case."""
        self.obligations += n
        self.discharged += n
        self.evaluations += n
        self.distinct.add((kind, str(key)))
        self.solver_s += seconds
        sec = self.sections.setdefault(kind, {"obligations": 0, "solver_s": 0.0})
        sec["obligations"] += n
        sec["solver_s"] = round(sec["solver_s"] + seconds, 3)

    def canary(self, name: str, fired: bool, detail: str = ""):
        self.canaries.append({"name": name, "fired": bool(fired), "detail": detail})
        if not fired:
            self.inconclusive.append(f"sensitivity canary did not fire: {name} {detail}")

    def twin(self, name: str, reachable: bool):
        self.twins.append({"name": name, "reachable": bool(reachable)})
        if not reachable:
            self.inconclusive.append(f"reachability twin not satisfiable (vacuous harness): {name}")

    def fail_inconclusive(self, why: str):
        self.obligations += 1
        self.inconclusive.append(why)

    def violation(self, key: str, text: str, replay: dict):
        """A counterexample that HAS ALREADY been replayed against the real code."""
        self.obligations += 1
        self.evaluations += 1
        if key in self.known:
            if key not in [k for k, _ in self.known_hits]:
                self.known_hits.append((key, text))
            return
        os.makedirs(REPLAY_DIR, exist_ok=True)
        replay = dict(replay)
        replay.update({"property": self.pid, "key": key, "text": text})
        blob = json.dumps(replay, indent=1, sort_keys=True, default=str)
        path = os.path.join(REPLAY_DIR, f"{self.pid}-{sha(blob)}.json")
        with open(path, "w") as f:
            f.write(blob)
        self.violations.append((key, text, path))

    # ---- finish ----------------------------------------------------------
    def finish(self):
        wall = time.time() - self.t0
        status = "pass"
        if self.violations:
            status = "violation"
        elif self.inconclusive:
            status = "inconclusive"
        cov = {
            "evaluations": max(self.evaluations, 0),
            "distinct_nontrivial": len(self.distinct),
            "rule": self.extra.pop("rule", "one evaluation = one solver obligation (SMT validity query or "
                                   "CrossHair condition closed over all paths); distinct = distinct "
                                   "(obligation kind, program/pattern/partition) pairs"),
            "samples": self.samples or ["(none)"],
            "obligations": self.obligations,
            "discharged": self.discharged,
            "programs": self.programs,
            "explanation": self.description,
            "engines": sorted(self.engines),
            "functions_encoded": self.functions,
            "bounds": self.bounds,
            "outside_claim": self.outside,
            "stubs": self.stubs,
            "solver_seconds": round(self.solver_s, 3),
            "per_kind": self.sections,
            "vacuity_twins": self.twins,
            "sensitivity_canaries": self.canaries,
            "known_findings_reproduced": [k for k, _ in self.known_hits],
            "inconclusive": self.inconclusive,
            "status": status,
            "exhaustive": False,
        }
        cov.update(self.extra)
        ev = {
            "property_id": self.pid,
            "tier": self.tier,
            "seed": self.seed,
            "level": self.level,
            "coverage": cov,
            "assumptions": self.assumptions,
            "wall_s": round(wall, 2),
            "violations": len(self.violations),
        }
        os.makedirs(EVIDENCE_DIR, exist_ok=True)
        tmp = os.path.join(EVIDENCE_DIR, f".{self.pid}.json.tmp")
        with open(tmp, "w") as f:
            json.dump(ev, f, indent=1, default=str)
        os.replace(tmp, os.path.join(EVIDENCE_DIR, f"{self.pid}.json"))
        for key, text in self.known_hits:
            print(f"KNOWN-FINDING: property={self.pid} {key}: {text}")
        for key, text, path in self.violations:
            print(f"VIOLATION property={self.pid} replay={path}")
            print(f"  {key}: {text}")
        for why in self.inconclusive:
            print(f"INCONCLUSIVE property={self.pid} {why}")
        print(f"{self.pid} {self.tier}: {status}; obligations={self.obligations} "
              f"discharged={self.discharged} distinct={len(self.distinct)} "
              f"solver_s={self.solver_s:.1f} wall_s={wall:.1f}")
        sys.stdout.flush()
        if self.violations:
            sys.exit(1)
        if self.inconclusive:
            sys.exit(2)
        sys.exit(0)


class Recorder:
    """Stands in for a Check inside a worker process: records the calls, the parent replays them."""
    _METHODS = ("ok", "violation", "fail_inconclusive", "encoded", "sample", "canary", "twin", "bound")

    def __init__(self, jobs=16):
        self.calls = []
        self.stubs, self.assumptions, self.outside = [], [], []
        self.jobs = jobs
        self.programs = 0

    def __getattr__(self, name):
        if name in Recorder._METHODS:
            return lambda *a, **k: self.calls.append((name, a, k))
        raise AttributeError(name)

    def only(self, _name):
        return True


def run_recorded(fn, *args):
    """worker entry: fn(recorder, *args) -> recorded calls (exceptions become inconclusive records)"""
    r = Recorder()
    try:
        fn(r, *args)
    except Inconclusive as e:
        r.calls.append(("fail_inconclusive", (str(e),), {}))
    except Exception as e:  # noqa: BLE001
        r.calls.append(("fail_inconclusive", (f"harness error {type(e).__name__}: {e}",), {}))
    return r.calls


def replay_calls(chk, calls):
    for name, a, k in calls:
        getattr(chk, name)(*a, **k)


def parallel_parts(chk, parts):
    """run [(fn, args...)] each in its own process, merge their records into chk in order"""
    import multiprocessing as mp
    with mp.Pool(min(len(parts), max(chk.jobs, 1))) as pool:
        futs = [pool.apply_async(run_recorded, p) for p in parts]
        for f in futs:
            replay_calls(chk, f.get())


def parallel_threads(chk, parts):
    """run [callable(recorder)] concurrently in threads (each part spawns its own subprocesses); merge in order"""
    import concurrent.futures as cf

    def one(fn):
        r = Recorder(chk.jobs)
        try:
            fn(r)
        except Inconclusive as e:
            r.calls.append(("fail_inconclusive", (str(e),), {}))
        except Exception as e:  # noqa: BLE001
            traceback.print_exc()
            r.calls.append(("fail_inconclusive", (f"harness error {type(e).__name__}: {e}",), {}))
        return r
    with cf.ThreadPoolExecutor(max_workers=len(parts)) as ex:
        for r in [f.result() for f in [ex.submit(one, p) for p in parts]]:
            replay_calls(chk, r.calls)
            chk.programs += r.programs
            chk.stubs += r.stubs
            chk.assumptions += r.assumptions
            chk.outside += r.outside


def run_check(pid, description, body, replay_fn=None, level="model_checking"):
    """body(check) runs the obligations; replay_fn(check, data) re-runs one replay file."""
    chk = Check(pid, description, level)
    if chk.args.replay:
        data = json.load(open(chk.args.replay))
        if replay_fn is None:
            print("no replay function for", pid)
            sys.exit(2)
        bad = replay_fn(chk, data)
        if bad:
            print(f"VIOLATION property={pid} replay={chk.args.replay}")
            print("  reproduced:", bad)
            sys.exit(1)
        print("replay: property holds on this input (not reproduced)")
        sys.exit(0)
    try:
        body(chk)
    except Inconclusive as e:
        chk.fail_inconclusive(f"{e}")
    except Exception as e:  # noqa: BLE001 -- only Exception: CrossHair steering is BaseException
        traceback.print_exc()
        chk.fail_inconclusive(f"harness error {type(e).__name__}: {e}")
    chk.finish()
