"""Syntactic inventory of places where the iteration order of a set can reach the generator's output.

Python side: every iteration over a set-typed expression in gapic/**/*.py is classified as
  sorted      wrapped in sorted(...)                         (order-insensitive iff the key is injective)
  insensitive feeds a set / frozenset / any / all / sum / min / max / len, or a loop that only adds to sets / tests
  raw         anything else: the order of the set reaches a list, dict, string or the control flow
Template side: every use of a set-typed schema attribute in a .j2 file is classified as membership / length /
sorted(attribute) / raw loop.
"""
from __future__ import annotations

import ast
import hashlib
import os
import re

SET_ANN = re.compile(r"^(typing\.)?(Set|FrozenSet|AbstractSet|MutableSet)\b")
INSENSITIVE_CALLS = {"set", "frozenset", "any", "all", "sum", "min", "max", "len", "sorted", "bool"}


def py_files(repo):
    for d, _dirs, files in os.walk(os.path.join(repo, "gapic")):
        if "templates" in d:
            continue
        for f in files:
            if f.endswith(".py"):
                yield os.path.join(d, f)


def set_typed_names(repo):
    """names of functions/properties/fields annotated as returning a set, across gapic/**/*.py"""
    names = set()
    for path in py_files(repo):
        tree = ast.parse(open(path).read())
        for node in ast.walk(tree):
            if isinstance(node, (ast.FunctionDef, ast.AsyncFunctionDef)) and node.returns is not None:
                if SET_ANN.match(ast.unparse(node.returns)):
                    names.add(node.name)
            if isinstance(node, ast.AnnAssign) and isinstance(node.target, ast.Name):
                if SET_ANN.match(ast.unparse(node.annotation)):
                    names.add(node.target.id)
    return names


class _Fn(ast.NodeVisitor):
    def __init__(self, path, fn, set_names, sites):
        self.path, self.fn, self.set_names, self.sites = path, fn, set_names, sites
        self.local_sets = set()
        self.parents = {}
        for parent in ast.walk(fn):
            for child in ast.iter_child_nodes(parent):
                self.parents[child] = parent
        for node in ast.walk(fn):
            if isinstance(node, ast.Assign) and len(node.targets) == 1 and isinstance(node.targets[0], ast.Name):
                if self.is_set(node.value, shallow=True):
                    self.local_sets.add(node.targets[0].id)
            if isinstance(node, ast.AnnAssign) and isinstance(node.target, ast.Name) and \
                    SET_ANN.match(ast.unparse(node.annotation)):
                self.local_sets.add(node.target.id)
        for a in fn.args.args + fn.args.kwonlyargs:
            if a.annotation is not None and SET_ANN.match(ast.unparse(a.annotation)):
                self.local_sets.add(a.arg)

    def is_set(self, e, shallow=False):
        if isinstance(e, (ast.SetComp, ast.Set)):
            return True
        if isinstance(e, ast.Call) and isinstance(e.func, ast.Name) and e.func.id in ("set", "frozenset"):
            return True
        if isinstance(e, ast.Name) and not shallow and e.id in self.local_sets:
            return True
        if isinstance(e, ast.Name) and shallow and e.id in self.local_sets:
            return True
        if isinstance(e, ast.Attribute) and e.attr in self.set_names:
            return True
        if isinstance(e, ast.Call) and isinstance(e.func, ast.Attribute) and e.func.attr in self.set_names:
            return True
        if isinstance(e, ast.Call) and isinstance(e.func, ast.Attribute) and e.func.attr in (
                "union", "intersection", "difference", "symmetric_difference", "copy") and self.is_set(e.func.value, shallow):
            return True
        if isinstance(e, ast.BinOp) and isinstance(e.op, (ast.BitOr, ast.BitAnd, ast.Sub, ast.BitXor)):
            return self.is_set(e.left, shallow) or self.is_set(e.right, shallow)
        return False

    def record(self, node, kind, detail=""):
        seg = ast.unparse(node)
        self.sites.append({"file": os.path.relpath(self.path), "function": self.fn.name, "line": node.lineno,
                           "kind": kind, "code": seg[:160], "detail": detail,
                           "id": hashlib.sha256((self.fn.name + "|" + seg).encode()).hexdigest()[:10]})

    def consumer_of_comprehension(self, comp):
        """classify a comprehension/generator whose source is a set"""
        if isinstance(comp, ast.SetComp):
            return "insensitive"
        parent = self.parents.get(comp)
        if isinstance(comp, ast.GeneratorExp) and isinstance(parent, ast.Call) and isinstance(parent.func, ast.Name):
            if parent.func.id == "sorted":
                return "sorted"
            if parent.func.id in INSENSITIVE_CALLS:
                return "insensitive"
        if isinstance(comp, (ast.ListComp, ast.GeneratorExp)) and isinstance(parent, ast.Call) and \
                isinstance(parent.func, ast.Name) and parent.func.id in ("set", "frozenset", "sorted"):
            return "sorted" if parent.func.id == "sorted" else "insensitive"
        return "raw"

    def loop_body_insensitive(self, loop):
        for st in loop.body:
            for node in ast.walk(st):
                if isinstance(node, (ast.Return, ast.Yield, ast.YieldFrom)):
                    if isinstance(node, ast.Return) and isinstance(node.value, ast.Constant) and isinstance(node.value.value, bool):
                        continue
                    return False
                if isinstance(node, ast.Call) and isinstance(node.func, ast.Attribute) and \
                        node.func.attr in ("append", "extend", "insert", "write", "setdefault", "__setitem__"):
                    return False
                if isinstance(node, (ast.Assign, ast.AugAssign)):
                    tgt = node.targets[0] if isinstance(node, ast.Assign) else node.target
                    if isinstance(tgt, ast.Subscript):
                        return False
        return True

    def run(self):
        for node in ast.walk(self.fn):
            if isinstance(node, ast.For) and self.is_set(node.iter):
                self.record(node.iter, "insensitive" if self.loop_body_insensitive(node) else "raw", "for-loop")
            elif isinstance(node, (ast.ListComp, ast.SetComp, ast.DictComp, ast.GeneratorExp)):
                for g in node.generators:
                    if self.is_set(g.iter):
                        k = self.consumer_of_comprehension(node)
                        self.record(node, k, type(node).__name__)
            elif isinstance(node, ast.Call):
                if isinstance(node.func, ast.Name) and node.func.id in ("list", "tuple", "enumerate", "iter", "next", "zip", "dict") \
                        and node.args and self.is_set(node.args[0]):
                    self.record(node, "raw", node.func.id + "()")
                elif isinstance(node.func, ast.Name) and node.func.id == "sorted" and node.args and self.is_set(node.args[0]):
                    key = [k for k in node.keywords if k.arg == "key"]
                    self.record(node, "sorted", "key=" + (ast.unparse(key[0].value) if key else "identity"))
                elif isinstance(node.func, ast.Attribute) and node.func.attr == "join" and node.args and self.is_set(node.args[0]):
                    self.record(node, "raw", "str.join")


def python_sites(repo):
    names = set_typed_names(repo)
    sites = []
    for path in sorted(py_files(repo)):
        tree = ast.parse(open(path).read())
        for node in ast.walk(tree):
            if isinstance(node, (ast.FunctionDef, ast.AsyncFunctionDef)):
                _Fn(path, node, names, sites).run()
    # a site found through nested function walks may be recorded twice
    seen, out = set(), []
    for s in sites:
        k = (s["file"], s["line"], s["code"])
        if k not in seen:
            seen.add(k)
            out.append(s)
    return out, names


def inside_filter_blocks(text):
    """line numbers (1-based) that lie inside a {% filter sort_lines %} ... {% endfilter %} block"""
    inside = set()
    depth = 0
    for i, line in enumerate(text.splitlines(), 1):
        if re.search(r"\{%-?\s*filter\s+sort_lines", line):
            depth += 1
        if depth:
            inside.add(i)
        if re.search(r"\{%-?\s*endfilter", line) and depth:
            depth -= 1
    return inside


def template_sites(repo, set_names):
    """uses of set-typed schema attributes (`.name` / `.name(`) inside Jinja tags"""
    sites = []
    pat = re.compile(r"\.(?:%s)\b" % "|".join(sorted(re.escape(n) for n in set_names)))
    for root in ("gapic/templates", "gapic/ads-templates"):
        for d, _dirs, files in os.walk(os.path.join(repo, root)):
            for f in files:
                if not f.endswith(".j2"):
                    continue
                path = os.path.join(d, f)
                text = open(path).read()
                in_sorted_block = inside_filter_blocks(text)
                # {% set alias = <set-typed value> %} (unsorted): every later loop over the alias iterates the set
                aliases = {}
                for i, line in enumerate(text.splitlines(), 1):
                    am = re.search(r"\{%-?\s*set\s+(\w+)\s*=\s*([^%]*?)\s*-?%\}", line)
                    if am and pat.search(am.group(2)) and not re.search(r"\|\s*sort\b", am.group(2)):
                        aliases[am.group(1)] = pat.search(am.group(2)).group(0)[1:]
                for alias, orig in aliases.items():
                    for i, line in enumerate(text.splitlines(), 1):
                        lm = re.search(r"\bfor\s+\w+(?:\s*,\s*\w+)?\s+in\s+%s\b(.*)" % re.escape(alias), line)
                        if not lm or "{%" not in line:
                            continue
                        rest = lm.group(1)
                        if re.match(r"\s*\|\s*sort\b", rest):
                            attr = re.search(r"sort\(\s*attribute\s*=\s*['\"]([^'\"]+)['\"]", rest)
                            kind, detail = "sorted", (attr.group(1) if attr else "identity")
                        elif i in in_sorted_block:
                            kind, detail = "sorted", "enclosing {% filter sort_lines %} (whole lines, identity)"
                        else:
                            kind, detail = "raw", f"for-loop over the alias {alias} of .{orig}"
                        sites.append({"file": os.path.relpath(path, repo), "line": i, "name": orig, "kind": kind,
                                      "detail": detail, "code": line.strip()[:160]})
                for i, line in enumerate(text.splitlines(), 1):
                    if "{{" not in line and "{%" not in line:
                        continue
                    for m in pat.finditer(line):
                        name = m.group(0)[1:]
                        rest = line[m.end():]
                        before = line[:m.start()]
                        if re.match(r"(\([^)]*\))?\s*\|\s*sort\b", rest) or re.match(r"\.values\(\)\s*\|\s*sort\b", rest):
                            attr = re.search(r"sort\(\s*attribute\s*=\s*['\"]([^'\"]+)['\"]", rest)
                            kind, detail = "sorted", (attr.group(1) if attr else "identity")
                        elif re.search(r"\b(not\s+)?in\s+[\w.()\[\]'\"]*$", before) and not re.search(r"\bfor\s+\w+(\s*,\s*\w+)?\s+in\s+[\w.()\[\]'\"]*$", before):
                            kind, detail = "membership", ""
                        elif re.match(r"\s*\|\s*(length|count)\b", rest) or re.search(r"\{%-?\s*(if|elif)\b[^%]*$", before):
                            kind, detail = "truthiness", ""
                        elif re.search(r"\bfor\s+\w+(\s*,\s*\w+)?\s+in\s+[\w.()\[\]'\"]*$", before):
                            if i in in_sorted_block:
                                kind, detail = "sorted", "enclosing {% filter sort_lines %} (whole lines, identity)"
                            else:
                                kind, detail = "raw", "for-loop"
                        else:
                            kind, detail = "other", ""
                        sites.append({"file": os.path.relpath(path, repo), "line": i, "name": name, "kind": kind,
                                      "detail": detail, "code": line.strip()[:160]})
    return sites


# ---------------------------------------------------------------------------------------------------------
# ambient inputs: anything besides the request (and the option files it references) the generator could read
AMBIENT_MODULES = {"datetime", "time", "random", "uuid", "socket", "getpass", "platform", "secrets", "locale", "tempfile"}
AMBIENT_OS = {"getcwd", "getenv", "environ", "getpid", "urandom", "uname", "getlogin", "listdir", "walk", "scandir", "stat", "cpu_count"}
AMBIENT_PATH = {"isdir", "isfile", "exists", "abspath", "realpath", "expanduser", "getmtime", "getsize"}
AMBIENT_BUILTINS = {"id", "hash", "input"}


def ambient_sites(repo):
    """uses of the clock, randomness, process environment, working directory, file-system probes and object identity in
    gapic/**/*.py (AST): [{file, function, what, line, code}]"""
    sites = []
    for path in sorted(py_files(repo)):
        text = open(path).read()
        try:
            tree = ast.parse(text)
        except SyntaxError:
            continue
        mods = {}            # local name -> module (import datetime / import datetime as dt / from os import path)
        for node in ast.walk(tree):
            if isinstance(node, ast.Import):
                for a in node.names:
                    mods[a.asname or a.name.split(".")[0]] = a.name
            elif isinstance(node, ast.ImportFrom) and node.module:
                for a in node.names:
                    mods[a.asname or a.name] = f"{node.module}.{a.name}"
        parents = {}
        for node in ast.walk(tree):
            for ch_ in ast.iter_child_nodes(node):
                parents[ch_] = node

        def func_of(n):
            while n in parents:
                n = parents[n]
                if isinstance(n, (ast.FunctionDef, ast.AsyncFunctionDef)):
                    return n.name
            return "<module>"
        for node in ast.walk(tree):
            what = None
            if isinstance(node, ast.Attribute):
                chain = []
                cur = node
                while isinstance(cur, ast.Attribute):
                    chain.append(cur.attr)
                    cur = cur.value
                if isinstance(cur, ast.Name) and cur.id in mods and not isinstance(parents.get(node), ast.Attribute):
                    full = mods[cur.id].split(".") + list(reversed(chain))
                    root = full[0]
                    if root in AMBIENT_MODULES:
                        what = ".".join(full)
                    elif root == "os" and len(full) > 1 and full[1] in AMBIENT_OS:
                        what = ".".join(full)
                    elif root == "os" and len(full) > 2 and full[1] == "path" and full[2] in AMBIENT_PATH:
                        what = ".".join(full)
                    elif root == "sys" and len(full) > 1 and full[1] in ("argv", "platform", "executable", "stdin"):
                        what = ".".join(full)
            elif isinstance(node, ast.Call) and isinstance(node.func, ast.Name) and node.func.id in AMBIENT_BUILTINS \
                    and node.func.id not in mods:
                what = node.func.id + "()"
            elif isinstance(node, ast.Name) and node.id in mods and mods[node.id].split(".")[0] in AMBIENT_MODULES \
                    and "." in mods[node.id] and isinstance(parents.get(node), ast.Call) and parents[node].func is node:
                what = mods[node.id] + "()"          # from time import time; time()
            if what:
                sites.append({"file": os.path.relpath(path, repo), "function": func_of(node), "what": what,
                              "line": getattr(node, "lineno", 0), "code": (ast.get_source_segment(text, node) or "")[:80]})
    return sites
