"""Engine CH: run CrossHair (z3, per-path symbolic execution) on harness functions.

A harness is an ordinary Python module whose functions carry PEP-316 contracts
(`pre:` / `post: _`).  Each function is checked in its own process:

    python -m crosshair check --report_all --per_condition_timeout T file.py:LINE

Verdict per function:
  confirmed        "Confirmed over all paths"  -> obligation discharged
  refuted          counterexample call printed  -> replayed by the caller in plain Python
  not_confirmed    budget exhausted / unknown   -> inconclusive
  no_precondition  "Unable to meet precondition" -> inconclusive (vacuous or all paths aborted)
  error            anything else                 -> inconclusive
"""
from __future__ import annotations

import ast
import concurrent.futures as cf
import importlib.util
import os
import re
import subprocess
import sys
import time

from lib import core

PY = os.path.join(core.VERIF, ".venv", "bin", "python")


def function_lines(path):
    tree = ast.parse(open(path).read())
    out = {}
    for n in tree.body:
        if isinstance(n, ast.FunctionDef):
            out[n.name] = n.body[0].lineno if n.body else n.lineno
    return out


def _one(path, func, line, timeout, env, extra_args=()):
    t = time.time()
    cmd = [PY, "-m", "crosshair", "check", "--report_all",
           f"--per_condition_timeout={timeout}", f"--per_path_timeout={max(timeout // 4, 10)}",
           *extra_args, f"{path}:{line}"]
    e = dict(os.environ)
    e.update(env or {})
    e["PYTHONPATH"] = core.VERIF + os.pathsep + e.get("PYTHONPATH", "")
    e["PYTHONHASHSEED"] = "0"
    try:
        p = subprocess.run(cmd, capture_output=True, text=True, env=e, timeout=timeout * 3 + 120,
                           cwd=os.path.dirname(path))
        out = p.stdout + p.stderr
    except subprocess.TimeoutExpired as ex:
        out = f"TIMEOUT {ex}"
    dt = time.time() - t
    res = {"func": func, "seconds": round(dt, 2), "raw": out.strip()[-1500:], "env": dict(env or {})}
    if "Confirmed over all paths" in out and "error:" not in out:
        res["status"] = "confirmed"
    elif "error:" in out and "when calling" in out:
        res["status"] = "refuted"
        m = re.search(r"error: (.*?) when calling (.*?)(?: \(which returns (.*)\))?$", out, re.M | re.S)
        line_ = [ln for ln in out.splitlines() if "when calling" in ln][0]
        m = re.search(r"error: (.*) when calling (.*?)(?: \(which returns .*\))?$", line_)
        res["message"] = m.group(1) if m else line_
        res["call"] = m.group(2) if m else None
    elif "Unable to meet precondition" in out:
        res["status"] = "no_precondition"
    elif "Not confirmed" in out:
        res["status"] = "not_confirmed"
    else:
        res["status"] = "error"
    return res


def run(path, funcs, timeout=60, env=None, jobs=16, partitions=None):
    """Check each function (optionally once per partition env) in parallel.
    partitions: list of env dicts; default [{}]."""
    lines = function_lines(path)
    missing = [f for f in funcs if f not in lines]
    if missing:
        raise core.Inconclusive(f"harness functions missing: {missing}")
    partitions = partitions or [{}]
    tasks = []
    with cf.ThreadPoolExecutor(max_workers=jobs) as ex:
        for f in funcs:
            for part in partitions:
                e = dict(env or {})
                e.update(part)
                tasks.append(ex.submit(_one, path, f, lines[f], timeout, e))
        return [t.result() for t in tasks]


def load_module(path, env=None, name=None):
    """Import a harness module in-process (for concrete replay)."""
    old = {}
    for k, v in (env or {}).items():
        old[k] = os.environ.get(k)
        os.environ[k] = v
    try:
        name = name or ("verif_harness_" + os.path.basename(path).replace(".py", ""))
        spec = importlib.util.spec_from_file_location(name, path)
        mod = importlib.util.module_from_spec(spec)
        sys.modules[name] = mod
        spec.loader.exec_module(mod)
        return mod
    finally:
        for k, v in old.items():
            if v is None:
                os.environ.pop(k, None)
            else:
                os.environ[k] = v


def replay_call(path, call_expr, env=None):
    """Evaluate `func(args...)` from a CrossHair counterexample in plain Python.
    Returns (reproduced: bool, detail)."""
    mod = load_module(path, env)
    try:
        val = eval(call_expr, vars(mod))  # noqa: S307 - literal arguments printed by CrossHair
    except Exception as e:  # noqa: BLE001
        return True, f"{type(e).__name__}: {e}"
    if val is False:
        return True, "returned False"
    return False, f"returned {val!r}"


def settle(chk, path, results, kind, key_prefix=""):
    """Turn CrossHair results into obligations / violations on `chk` (with replay)."""
    for r in results:
        part = ",".join(f"{k}={v}" for k, v in sorted(r["env"].items()) if k.startswith("VERIF_PART"))
        key = f"{key_prefix}{r['func']}" + (f"[{part}]" if part else "")
        if r["status"] == "confirmed":
            chk.ok(kind, key, r["seconds"])
        elif r["status"] == "refuted":
            rep, detail = replay_call(path, r["call"], r["env"])
            if rep:
                chk.violation(key, f"{r['call']} -> {detail}",
                              {"harness": os.path.relpath(path, core.VERIF), "call": r["call"],
                               "env": r["env"], "message": r.get("message")})
            else:
                chk.fail_inconclusive(f"{key}: CrossHair counterexample {r['call']} did not replay ({detail})")
        else:
            chk.fail_inconclusive(f"{key}: CrossHair {r['status']}: {r['raw'][-300:]}")
