"""Load EMITTED client code (rendered by the check from /repo's current templates) for symbolic
execution: single methods are lifted out of the emitted client classes with `ast`, compiled
unmodified (only annotations/decorators/docstrings are dropped) into a namespace that provides
  * stand-in message classes built from the very descriptors the API was generated from,
  * the real google.api_core.gapic_v1 (routing header assembly etc.),
  * recording stand-ins for operation futures and uuid,
  * the emitted pagers module, itself loaded unmodified.
"""
from __future__ import annotations

import ast
import importlib
import importlib.util
import os
import re
import sys
import types

from google.protobuf import descriptor_pb2

from lib import fakes

T = descriptor_pb2.FieldDescriptorProto
_INT = {T.TYPE_INT64, T.TYPE_UINT64, T.TYPE_INT32, T.TYPE_FIXED64, T.TYPE_FIXED32, T.TYPE_UINT32,
        T.TYPE_SFIXED32, T.TYPE_SFIXED64, T.TYPE_SINT32, T.TYPE_SINT64, T.TYPE_ENUM}


def _scalar_kind(t):
    if t in _INT:
        return "int"
    if t == T.TYPE_BOOL:
        return "bool"
    if t in (T.TYPE_DOUBLE, T.TYPE_FLOAT):
        return "int"
    return "str"


def classes_from_fdp(fdp, registry):
    """FileDescriptorProto -> {MessageName: FakeMsg subclass}; registry maps full proto names
    ('.pkg.Msg') to classes across files so message-typed fields resolve."""
    out = {}
    pend = []
    for m in fdp.message_type:
        cls = fakes.make_msg(m.name, {})
        cls._optional = set()
        cls._reserved = {}
        out[m.name] = cls
        registry[f".{fdp.package}.{m.name}"] = cls
        pend.append((m, cls))
    return out, pend


def finish_classes(pend, registry, fdp_package, rename=None):
    for m, cls in pend:
        maps = {f".{fdp_package}.{m.name}.{n.name}" for n in m.nested_type if n.options.map_entry}
        kinds = {}
        for f in m.field:
            pyname = rename(f.name) if rename else f.name
            if f.type == T.TYPE_MESSAGE and f.type_name in maps:
                kinds[pyname] = "map"
            elif f.label == T.LABEL_REPEATED:
                kinds[pyname] = "rep"
            elif f.type == T.TYPE_MESSAGE:
                kinds[pyname] = registry.get(f.type_name, fakes.make_msg(f.type_name.split(".")[-1], {}, strict=False))
            else:
                kinds[pyname] = _scalar_kind(f.type)
            if f.proto3_optional:
                cls._optional.add(pyname)
            cls._reserved[pyname] = f.name
        cls._kinds = kinds


def fake_pb2_module(real_mod, registry):
    """stand-in for a *_pb2 module: one FakeMsg class per top-level message."""
    fdp = descriptor_pb2.FileDescriptorProto.FromString(real_mod.DESCRIPTOR.serialized_pb)
    classes, pend = classes_from_fdp(fdp, registry)
    finish_classes(pend, registry, fdp.package)
    mod = types.ModuleType(real_mod.__name__ + "__fake")
    for k, v in classes.items():
        setattr(mod, k, v)
    return mod


class FakeUuid:
    """uuid stand-in: uuid4() returns fresh, recognisable tokens."""

    def __init__(self):
        self.n = 0
        self.issued = []

    def uuid4(self):
        self.n += 1
        tok = f"FRESH-UUID-{self.n}"
        self.issued.append(tok)
        return tok


class FakeOperationModule:
    def __init__(self, kind):
        self.kind = kind

    def from_gapic(self, response, ops_client, result_type, metadata_type=None):
        return ("FUTURE", self.kind, response, ops_client, result_type, metadata_type)


def _strip(fn):
    fn.returns = None
    fn.decorator_list = []
    for a in fn.args.args + fn.args.kwonlyargs + fn.args.posonlyargs:
        a.annotation = None
    if fn.body and isinstance(fn.body[0], ast.Expr) and isinstance(fn.body[0].value, ast.Constant) \
            and isinstance(fn.body[0].value.value, str):
        fn.body = fn.body[1:] or [ast.Pass()]
    return fn


class EmittedClient:
    def __init__(self, outdir, api_fdps, py_package, service_dir, rename=None, mutate=None):
        """outdir: scratch tree written by lib.gen; api_fdps: FileDescriptorProtos of the API;
        py_package: e.g. 'google.example.cl_v1'; service_dir: e.g. 'library'.
        rename: proto field name -> python attribute (reserved-word suffixing), reference version.
        mutate: optional f(source_text, which) -> source_text, for in-memory canaries."""
        self.outdir = outdir
        self.py_package = py_package
        base = os.path.join(outdir, py_package.replace(".", "/"), "services", service_dir)
        self.base = base
        self.registry = {}
        self.uuid = FakeUuid()
        # stand-in message classes for the API's own files
        self.type_modules = {}
        pends = []
        for fdp in api_fdps:
            classes, pend = classes_from_fdp(fdp, self.registry)
            pends.append((pend, fdp.package))
            modname = os.path.basename(fdp.name).replace(".proto", "")
            self.type_modules[modname] = (classes, fdp)
        # dependency pb2 modules (registered first so API fields can refer to them)
        self.pb2 = {}
        for pend, pkg in pends:
            finish_classes(pend, self._registry_with_deps(), pkg, rename)
        for modname, (classes, fdp) in self.type_modules.items():
            fakes.install_types_module(f"{py_package}.types.{modname}", list(classes.values()))
        self.src = {}
        self.ns = {}
        for which in ("client", "async_client"):
            p = os.path.join(base, which + ".py")
            if os.path.exists(p):
                text = open(p).read()
                if mutate:
                    text = mutate(text, which)
                self.src[which] = text
                self.ns[which] = self._namespace(ast.parse(text))
        self._cache = {}

    def _registry_with_deps(self):
        if not self.pb2:
            for name in ("google.protobuf.empty_pb2", "google.protobuf.field_mask_pb2",
                         "google.protobuf.struct_pb2", "google.protobuf.timestamp_pb2",
                         "google.protobuf.duration_pb2", "google.protobuf.wrappers_pb2",
                         "google.protobuf.any_pb2", "google.rpc.status_pb2",
                         "google.longrunning.operations_pb2"):
                real = importlib.import_module(name)
                self.pb2[name] = fake_pb2_module(real, self.registry)
        return self.registry

    def cls(self, proto_full_name):
        return self.registry[proto_full_name]

    def _namespace(self, tree):
        ns = {"__builtins__": __builtins__}
        for node in tree.body:
            if isinstance(node, ast.Try):
                body = node.body
            else:
                body = [node]
            for n in body:
                if isinstance(n, ast.Import):
                    for a in n.names:
                        self._bind(ns, a.asname or a.name.split(".")[0], a.name, None)
                elif isinstance(n, ast.ImportFrom):
                    if n.level:
                        continue
                    for a in n.names:
                        self._bind(ns, a.asname or a.name, n.module, a.name)
        ns["uuid"] = self.uuid
        ns["HAS_GOOGLE_API_CORE_VERSION_HEADER"] = False
        return ns

    def _bind(self, ns, local, module, attr):
        full = f"{module}.{attr}" if attr else module
        if module.startswith(self.py_package + ".types") or full.startswith(self.py_package + ".types."):
            modname = attr if module.endswith(".types") else module.rsplit(".", 1)[-1]
            if modname in self.type_modules:
                ns[local] = sys.modules[f"{self.py_package}.types.{modname}"]
            return
        if full.endswith(".pagers"):
            ns[local] = self._load_pagers()
            return
        if module.startswith(self.py_package):
            return
        if full in self.pb2:
            ns[local] = self.pb2[full]
            return
        if full in ("google.api_core.operation", "google.api_core.operation_async"):
            ns[local] = FakeOperationModule(attr)
            return
        if attr == "uuid" or module == "uuid":
            return
        try:
            mod = importlib.import_module(module)
            ns[local] = getattr(mod, attr) if attr else importlib.import_module(module.split(".")[0])
        except Exception:  # noqa: BLE001
            try:
                ns[local] = importlib.import_module(full)
            except Exception:  # noqa: BLE001
                pass

    def _load_pagers(self):
        p = os.path.join(self.base, "pagers.py")
        spec = importlib.util.spec_from_file_location(f"emitted_pagers_{abs(hash(self.base))}", p)
        mod = importlib.util.module_from_spec(spec)
        spec.loader.exec_module(mod)
        return mod

    def method(self, which, cls_name, name):
        key = (which, cls_name, name)
        if key in self._cache:
            return self._cache[key]
        tree = ast.parse(self.src[which])
        cls = [n for n in tree.body if isinstance(n, ast.ClassDef) and n.name == cls_name]
        if not cls:
            raise KeyError(f"class {cls_name} not in emitted {which}.py")
        fns = [n for n in cls[0].body if isinstance(n, (ast.FunctionDef, ast.AsyncFunctionDef)) and n.name == name]
        if not fns:
            raise KeyError(f"method {name} not in emitted class {cls_name}")
        fn = _strip(fns[0])
        mod = ast.Module(body=[fn], type_ignores=[])
        ast.fix_missing_locations(mod)
        code = compile(mod, f"emitted:{which}.py:{cls_name}.{name}", "exec")
        ns = dict(self.ns[which])
        exec(code, ns)
        self._cache[key] = ns[name]
        return ns[name]

    def method_source(self, which, cls_name, name):
        tree = ast.parse(self.src[which])
        cls = [n for n in tree.body if isinstance(n, ast.ClassDef) and n.name == cls_name][0]
        fn = [n for n in cls.body if isinstance(n, (ast.FunctionDef, ast.AsyncFunctionDef)) and n.name == name][0]
        return ast.get_source_segment(self.src[which], fn)

    def signature(self, which, cls_name, name):
        import inspect
        return list(inspect.signature(self.method(which, cls_name, name)).parameters)


def wire(msg):
    """Normal form of a stand-in message as it would travel: fields without presence that hold
    their default (""/0/False), empty lists/maps and empty sub-messages of non-optional fields
    are dropped; keys are the ORIGINAL proto field names."""
    if not isinstance(msg, fakes.FakeMsg):
        return msg
    out = {}
    opt = getattr(type(msg), "_optional", set())
    names = getattr(type(msg), "_reserved", {})
    for k, v in msg._set.items():
        wk = names.get(k, k)
        if isinstance(v, fakes.FakeMsg):
            out[wk] = wire(v)
        elif isinstance(v, (list, tuple)):
            if len(v):
                out[wk] = [wire(x) for x in v]
        elif isinstance(v, dict):
            if len(v):
                out[wk] = {kk: wire(x) for kk, x in v.items()}
        elif k in opt:
            out[wk] = v
        elif v:
            out[wk] = v
    return out
